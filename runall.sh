#!/bin/bash
# runs every claimed check at the given tier (default quick); prints one summary line per check
cd "$(dirname "$0")"
tier=${1:-quick}
rc=0
for id in $(/venv/bin/python -c "import json;print(' '.join(c['property_id'] for c in json.load(open('MANIFEST.json'))['checks']))"); do
  out=$(./check $id $tier 2>&1); r=$?
  echo "$out" | grep -E "^(VIOLATION|KNOWN-FINDING|harness error)" 
  echo "$out" | tail -1 | sed "s/^/[rc=$r] /"
  [ $r -ne 0 ] && rc=1
done
exit $rc
