"""Prints a markdown table of what the last run of every check covered (from evidence/*.json)."""
import glob
import json
import os

ROOT = os.path.dirname(os.path.dirname(os.path.abspath(__file__)))


def main():
    print('| id | level | tier | evaluations | distinct non-trivial | states / transitions | wall s |')
    print('|---|---|---|---|---|---|---|')
    for f in sorted(glob.glob(os.path.join(ROOT, 'evidence', 'C*.json'))):
        e = json.load(open(f))
        c = e['coverage']
        st = '%s / %s' % (c['states'], c['transitions']) if 'states' in c else '-'
        print('| %s | %s | %s | %s | %s | %s | %s |' % (e['property_id'], e['level'], e['tier'], c.get('evaluations'),
                                                      c.get('distinct_nontrivial'), st, e['wall_s']))


if __name__ == '__main__':
    main()
