"""Strict structural TDMS parser + decoder, independent of nptdms (struct only).

parse(data)      -> list of segment dicts; raises ParseError(field, message) when a length / offset
                    field disagrees with the bytes actually present (strict mode).
decode(data)     -> (order, props, channels) using the inheritance rules of the format.
"""
import struct

from .tdmsgen import TYPES, DAQMX_TYPES, LEAD_IN, UNKNOWN_LEN

CODE2TYPE = {v[0]: k for k, v in TYPES.items()}
FORMAT_CHANGING, DIGITAL_LINE = 0x1269, 0x126A


class ParseError(Exception):
    def __init__(self, field, msg, segment=None):
        Exception.__init__(self, '%s: %s (segment %s)' % (field, msg, segment))
        self.field, self.msg, self.segment = field, msg, segment


class Cur(object):
    def __init__(self, data, pos, end, E, seg):
        self.d, self.p, self.end, self.E, self.seg = data, pos, end, E, seg

    def take(self, n, field):
        if self.p + n > self.end:
            raise ParseError(field, 'needs %d bytes at %d but the enclosing extent ends at %d' % (n, self.p, self.end), self.seg)
        b = self.d[self.p:self.p + n]
        self.p += n
        return b

    def u32(self, field):
        return struct.unpack(self.E + 'I', self.take(4, field))[0]

    def u64(self, field):
        return struct.unpack(self.E + 'Q', self.take(8, field))[0]

    def string(self, field):
        n = self.u32(field + '.length')
        b = self.take(n, field)
        try:
            return b.decode('utf-8')
        except UnicodeDecodeError:
            raise ParseError(field, 'invalid UTF-8', self.seg)


def _prop_value(c, tcode, field):
    if tcode not in CODE2TYPE:
        raise ParseError(field + '.type', 'unknown type code 0x%x' % tcode, c.seg)
    t = CODE2TYPE[tcode]
    if t == 'String':
        n = c.u32(field + '.strlen')
        return t, c.take(n, field + '.str')
    size = TYPES[t][1]
    raw = c.take(size, field + '.value')
    if c.E == '>':
        from .tdmsgen import swap
        raw = swap(t, raw)  # swap is an involution for every fixed-width type
    return t, raw


def parse(data, strict=True, index=False, exact_meta=True):
    segs = []
    pos = 0
    n = len(data)
    si = 0
    tag = b'TDSh' if index else b'TDSm'
    while pos < n:
        if n - pos < LEAD_IN:
            raise ParseError('lead_in', 'only %d bytes left at %d' % (n - pos, pos), si)
        if data[pos:pos + 4] != tag:
            raise ParseError('tag', 'expected %r at %d, found %r' % (tag, pos, data[pos:pos + 4]), si)
        toc = struct.unpack('<I', data[pos + 4:pos + 8])[0]
        E = '>' if toc & 64 else '<'
        version, nso, rdo = struct.unpack(E + 'iQQ', data[pos + 8:pos + 28])
        seg = {'index': si, 'start': pos, 'toc': toc, 'big': E == '>', 'version': version, 'nso': nso, 'rdo': rdo,
               'objects': [], 'meta': bool(toc & 2), 'newlist': bool(toc & 4), 'interleaved': bool(toc & 32),
               'daqmx': bool(toc & 128), 'rawflag': bool(toc & 8)}
        data_start = pos + LEAD_IN + rdo
        if index:
            end = data_start
            seg['data_end_in_data_file'] = pos + LEAD_IN + nso
        elif nso == UNKNOWN_LEN:
            end = n
        else:
            end = pos + LEAD_IN + nso
            if end > n:
                if strict:
                    raise ParseError('next_segment_offset', 'segment claims to end at %d but the file has %d bytes' % (end, n), si)
                end = n
        if strict and nso != UNKNOWN_LEN and rdo > nso:
            raise ParseError('raw_data_offset', 'raw data offset %d exceeds next segment offset %d' % (rdo, nso), si)
        if data_start > n:
            raise ParseError('raw_data_offset', 'metadata claims %d bytes but the file ends first' % rdo, si)
        seg['data_start'], seg['end'] = data_start, end
        if seg['meta']:
            c = Cur(data, pos + LEAD_IN, data_start, E, si)
            nobj = c.u32('n_objects')
            for oi in range(nobj):
                o = {'path': c.string('object[%d].path' % oi)}
                hdr = c.u32('object[%d].index_header' % oi)
                f = 'object[%d].index' % oi
                if hdr == 0xFFFFFFFF:
                    o['index'] = ('nodata',)
                elif hdr == 0:
                    o['index'] = ('same',)
                elif hdr in (FORMAT_CHANGING, DIGITAL_LINE):
                    tcode = c.u32(f + '.type')
                    dim = c.u32(f + '.dimension')
                    nv = c.u64(f + '.n_values')
                    ns = c.u32(f + '.n_scalers')
                    scalers = []
                    for _ in range(ns):
                        if hdr == FORMAT_CHANGING:
                            scalers.append(struct.unpack(E + 'IIIII', c.take(20, f + '.scaler')))
                        else:
                            scalers.append(struct.unpack(E + 'IIIBI', c.take(17, f + '.scaler')))
                    nw = c.u32(f + '.n_widths')
                    widths = [c.u32(f + '.width') for _ in range(nw)]
                    o['index'] = ('daqmx', hdr, tcode, dim, nv, scalers, widths)
                else:
                    before = c.p
                    tcode = c.u32(f + '.type')
                    dim = c.u32(f + '.dimension')
                    nv = c.u64(f + '.n_values')
                    if tcode not in CODE2TYPE:
                        raise ParseError(f + '.type', 'unknown type code 0x%x' % tcode, si)
                    t = CODE2TYPE[tcode]
                    total = c.u64(f + '.total_size') if t == 'String' else None
                    follow = c.p - before + 4  # the length field counts itself (20 / 28)
                    if strict and hdr != follow:
                        raise ParseError(f + '.length', 'raw data index length field is %d but %d bytes make up the index '
                                         '(type %s)' % (hdr, follow, t), si)
                    if strict and dim != 1:
                        raise ParseError(f + '.dimension', 'dimension %d' % dim, si)
                    o['index'] = ('std', t, nv, total, hdr)
                np_ = c.u32('object[%d].n_props' % oi)
                o['props'] = []
                for pi in range(np_):
                    name = c.string('object[%d].prop[%d].name' % (oi, pi))
                    tcode = c.u32('object[%d].prop[%d].type' % (oi, pi))
                    t, raw = _prop_value(c, tcode, 'object[%d].prop[%d]' % (oi, pi))
                    o['props'].append((name, t, raw))
                seg['objects'].append(o)
            seg['meta_parsed_end'] = c.p
            if strict and exact_meta and c.p != data_start:
                raise ParseError('raw_data_offset', 'metadata parses to %d bytes but raw data offset says %d'
                                 % (c.p - pos - LEAD_IN, rdo), si)
        elif strict and rdo != 0:
            raise ParseError('raw_data_offset', 'no metadata flag but raw data offset %d' % rdo, si)
        segs.append(seg)
        pos = end
        si += 1
    return segs


def decode(data, strict=True, exact_meta=True):
    """Apply the inheritance rules to parsed segments and pull the values out of the raw data.
    -> dict(order=[paths], props={path: {name: (type, le_bytes)}}, types={path: type},
            values={path: [le bytes | utf8 bytes]}, seg_raw=[(chunk_size, chunks)])"""
    from .tdmsgen import swap
    segs = parse(data, strict=strict, exact_meta=exact_meta)
    order, props, types, values = [], {}, {}, {}
    active, last = [], {}
    seg_raw = []
    for s in segs:
        if s['meta']:
            work = [] if (s['newlist'] or s['index'] == 0) else [list(e) for e in active]
            pos = {e[0]: i for i, e in enumerate(work)}
            for o in s['objects']:
                p = o['path']
                if p not in props:
                    order.append(p)
                    props[p] = {}
                    values[p] = []
                if p in pos:
                    cur = work[pos[p]]
                    idx0 = cur[1]
                elif p in last:
                    idx0, cur = last[p][0], None
                else:
                    idx0, cur = None, None
                k = o['index'][0]
                if k == 'nodata':
                    e1 = (idx0, False)
                elif k == 'same':
                    if idx0 is None:
                        raise ParseError('index', 'matches-previous without a previous index for %s' % p, s['index'])
                    e1 = (idx0, True)
                else:
                    e1 = (o['index'], True)
                    t = o['index'][1] if k == 'std' else 'daqmx'
                    if types.get(p) not in (None, t):
                        raise ParseError('index.type', 'type change for %s' % p, s['index'])
                    types[p] = t
                if cur is not None:
                    cur[1], cur[2] = e1
                else:
                    pos[p] = len(work)
                    work.append([p, e1[0], e1[1]])
                for (name, t, raw) in o['props']:
                    props[p][name] = (t, raw)
            active = work
        elif s['index'] == 0:
            raise ParseError('toc', 'first segment without metadata', 0)
        for e in active:
            last[e[0]] = (e[1], e[2])
        dobjs = [(e[0], e[1]) for e in active if e[2] and e[1] is not None]
        if any(i[0] == 'daqmx' for _, i in dobjs):
            seg_raw.append(('daqmx', 0))
            continue
        sizes = []
        for p, i in dobjs:
            _k, t, nv, total, _h = i
            sizes.append(total if t == 'String' else nv * TYPES[t][1])
        chunk = sum(sizes)
        raw_len = s['end'] - s['data_start']
        if chunk == 0:
            if strict and raw_len != 0:
                raise ParseError('next_segment_offset', '%d raw bytes but the declared chunk size is 0' % raw_len, s['index'])
            seg_raw.append((0, 0))
            continue
        if strict and raw_len % chunk:
            raise ParseError('next_segment_offset', 'raw data length %d is not a multiple of the declared chunk size %d'
                             % (raw_len, chunk), s['index'])
        nchunks = raw_len // chunk
        seg_raw.append((chunk, nchunks))
        E = '>' if s['big'] else '<'
        q = s['data_start']
        interleaved = s['interleaved'] and not (len(dobjs) == 1 and dobjs[0][1][1] == 'String')
        for _ci in range(nchunks):
            if interleaved:
                nrows = dobjs[0][1][2]
                for _r in range(nrows):
                    for p, i in dobjs:
                        sz = TYPES[i[1]][1]
                        raw = data[q:q + sz]
                        values[p].append(swap(i[1], raw) if s['big'] else raw)
                        q += sz
                continue
            for p, i in dobjs:
                _k, t, nv, total, _h = i
                if t == 'String':
                    offs = struct.unpack(E + '%dI' % nv, data[q:q + 4 * nv]) if nv else ()
                    if strict and nv and offs[-1] + 4 * nv != total:
                        raise ParseError('string.offsets', 'offset table ends at %d (+%d table bytes) but the index '
                                         'declares %d bytes' % (offs[-1], 4 * nv, total), s['index'])
                    prev = 0
                    base = q + 4 * nv
                    for o_ in offs:
                        if strict and o_ < prev:
                            raise ParseError('string.offsets', 'offsets not monotone', s['index'])
                        values[p].append(data[base + prev:base + o_])
                        prev = o_
                    q += total
                else:
                    sz = TYPES[t][1]
                    for _j in range(nv):
                        raw = data[q:q + sz]
                        values[p].append(swap(t, raw) if s['big'] else raw)
                        q += sz
    return {'order': order, 'props': props, 'types': types, 'values': values, 'seg_raw': seg_raw, 'segments': segs}


# ---------------------------------------------------------------------------------------
# selftest: bind this independent reading of the format to real LabVIEW output and to the
# maintainers' hand-written scenarios
# ---------------------------------------------------------------------------------------

def selftest():
    import glob
    import io
    import os
    from . import harness as H
    from . import tdmsgen as G
    fails = []
    # (a) generator round trip on a small exhaustive family
    a, b = "/'g'/'a'", "/'g'/'b'"
    n = 0
    for ta in G.T17:
        for big in (False, True):
            for il in (False, True):
                if il and ta == 'String':
                    continue
                h = [G.seg([('/', ['NODATA'], [['p', 'Int32', '07000000'], ['s', 'String', 'c3a9']]),
                            (a, ['FULL', ta, 2] if ta != 'String' else ['FULL', 'String', 2, 5]), (b, ['FULL', 'Int16', 2])],
                           chunks=2, interleaved=il, big=big),
                     G.seg([(a, ['SAME']), (b, ['NODATA'])], newlist=False, big=not big),
                     G.seg([], meta=False, chunks=2, big=big)]
                data, idx, _l, ref = G.encode(h, index=True)
                try:
                    d = decode(data)
                    parse(idx, index=True)
                except ParseError as e:
                    fails.append('generator output rejected by strict parser: %s' % e)
                    continue
                n += 1
                for p in ref.order:
                    if H._is_channel(p) and d['values'][p] != ref.values[p]:
                        fails.append('decode(encode(H)) differs from interpret(H) for %s (%s,%s,%s)' % (p, ta, big, il))
    # (b) real files written by LabVIEW / NI software, shipped with the repository's tests
    ddir = os.path.join(H.REPO, 'nptdms', 'test', 'data')
    nreal = 0
    for path in sorted(glob.glob(os.path.join(ddir, '*.tdms'))):
        raw = open(path, 'rb').read()
        try:
            d = decode(raw, strict=True, exact_meta=False)  # LabVIEW pads the metadata block
        except ParseError as e:
            fails.append('real file %s rejected by strict parser: %s' % (os.path.basename(path), e))
            continue
        nreal += 1
        tf = H.TdmsFile.read(io.BytesIO(raw), raw_timestamps=True)
        for g in tf.groups():
            for ch in g.channels():
                if d['types'].get(ch.path) in (None, 'daqmx'):
                    continue
                got = H.norm_array(ch[:])
                exp = d['values'][ch.path]
                expb = tuple(exp) if d['types'][ch.path] == 'String' else b''.join(exp)
                if got[1] != len(exp) or got[2] != expb:
                    fails.append('real file %s channel %s: independent decoding differs from nptdms'
                                 % (os.path.basename(path), ch.path))
    if nreal < 3:
        fails.append('fewer than 3 real example files decoded (%d)' % nreal)
    # (c) the maintainers' hand-written scenarios: bytes + expected data
    try:
        import numpy as np
        from nptdms.test import scenarios
        ns = 0
        for param in scenarios.get_scenarios():
            name = param.id
            test_file, expected = param.values[0], param.values[1]
            raw = test_file._get_contents() if hasattr(test_file, '_get_contents') else None
            if raw is None:
                continue
            try:
                d = decode(raw, strict=True)
            except ParseError:
                continue  # deliberately truncated / odd scenarios are not part of the binding
            ok = True
            for (grp, chn), exp in expected.items():
                p = "/'%s'/'%s'" % (grp.replace("'", "''"), chn.replace("'", "''"))
                if d['types'].get(p) in (None, 'daqmx', 'String', 'TimeStamp') or p not in d['values']:
                    continue
                if any(k.startswith('NI_Scal') for k in d['props'].get(p, {})):
                    continue  # expectation is scaled data
                try:
                    arr = np.asarray(exp)
                    expb = arr.astype(G.NPTYPE[d['types'][p]]).tobytes()
                except Exception:
                    continue
                if b''.join(d['values'][p]) != expb:
                    ok = False
                    fails.append('scenario %s channel %s: independent decoding differs from the maintainers\' expectation'
                                 % (name, p))
            ns += 1
        if ns < 10:
            fails.append('fewer than 10 scenarios decoded (%d)' % ns)
        print('selftest: %d generated files round-tripped, %d real files, %d scenarios bound' % (n, nreal, ns))
    except ImportError as e:
        fails.append('cannot import scenarios: %r' % (e,))
    return fails
