"""Runs the owning check (and optionally others) against every seeded change in /verif/seeded.

For each seeded/<name>/ (patch.diff, demo.py, meta.json): a scratch worktree of /repo HEAD is created under /dev/shm, the patch
applied, the demonstration run (must exit 1), optionally the repository's test suite (must pass), then the check(s) with
VERIF_REPO pointing at the worktree and VERIF_OUT_DIR at a scratch directory.  The worktree is removed afterwards.

usage: /venv/bin/python -m mc.mutants [--tests] [--tier quick|thorough] [--checks C01,C02] [name ...]
"""
import json
import os
import shutil
import subprocess
import sys
import tempfile

ROOT = os.path.dirname(os.path.dirname(os.path.abspath(__file__)))
SEEDED = os.path.join(ROOT, 'seeded')
PY = '/venv/bin/python'


def sh(cmd, cwd=None, env=None, timeout=1500):
    # own process group, so that a run that exceeds the time limit can be stopped together with its worker processes
    p = subprocess.Popen(cmd, cwd=cwd, env=env, stdout=subprocess.PIPE, stderr=subprocess.STDOUT, text=True, start_new_session=True)
    try:
        out, _ = p.communicate(timeout=timeout)
        return p.returncode, out
    except subprocess.TimeoutExpired:
        import signal
        try:
            os.killpg(p.pid, signal.SIGKILL)
        except OSError:
            pass
        out, _ = p.communicate()
        return -9, (out or '') + '\nTIMEOUT after %d s' % timeout


def main(argv):
    tests = '--tests' in argv
    tier = 'quick'
    checks_override = None
    names = []
    i = 1
    while i < len(argv):
        a = argv[i]
        if a == '--tier':
            tier = argv[i + 1]
            i += 1
        elif a == '--checks':
            checks_override = argv[i + 1].split(',')
            i += 1
        elif not a.startswith('--') and not a.endswith('.log'):
            names.append(a)
        i += 1
    if '--merge' in argv and not names:
        names = []
    else:
        names = names or sorted(d for d in os.listdir(SEEDED) if os.path.isfile(os.path.join(SEEDED, d, 'meta.json')))
    base = '/dev/shm' if os.path.isdir('/dev/shm') else None
    results = {}
    for name in names:
        d = os.path.join(SEEDED, name)
        meta = json.load(open(os.path.join(d, 'meta.json')))
        wt = tempfile.mkdtemp(prefix='verif_mut_', dir=base)
        out = tempfile.mkdtemp(prefix='verif_mutout_', dir=base)
        os.rmdir(wt)
        row = {'property': meta['property']}
        try:
            rc, o = sh(['git', '-C', '/repo', 'worktree', 'add', '-q', '--detach', wt, 'HEAD'])
            if rc:
                row['error'] = 'worktree: ' + o[-200:]
                continue
            env0 = dict(os.environ, PYTHONPATH=wt, PYTHONDONTWRITEBYTECODE='1')
            rc, o = sh([PY, os.path.join(d, 'demo.py')], cwd=wt, env=env0, timeout=600)
            row['demo_exit_clean'] = rc
            rc, o = sh(['git', 'apply', os.path.join(d, 'patch.diff')], cwd=wt)
            if rc:
                row['error'] = 'patch does not apply: ' + o[-200:]
                continue
            env = dict(os.environ, PYTHONPATH=wt, PYTHONDONTWRITEBYTECODE='1')
            rc, o = sh([PY, os.path.join(d, 'demo.py')], cwd=wt, env=env, timeout=600)
            row['demo_exit'] = rc
            if tests:
                rc, o = sh([PY, '-m', 'pytest', '-q', '-p', 'no:cacheprovider', '-x'], cwd=wt, env=env)
                row['tests_pass'] = rc == 0
            env2 = dict(os.environ, VERIF_REPO=wt, VERIF_OUT_DIR=out, VERIF_TIER=tier)
            for cid in (checks_override or meta.get('checks') or [meta['property']]):
                rc, o = sh([os.path.join(ROOT, 'check'), cid, tier], cwd=ROOT, env=env2)
                lines = [l for l in o.splitlines() if l.startswith(('VIOLATION', 'harness error'))]
                row[cid] = {'exit': rc, 'violation_lines': len([l for l in lines if l.startswith('VIOLATION')]),
                            'first': next((l2.strip() for l2 in o.splitlines() if l2.strip().startswith('observed:')), '')[:160]}
        finally:
            sh(['git', '-C', '/repo', 'worktree', 'remove', '--force', wt])
            shutil.rmtree(wt, ignore_errors=True)
            shutil.rmtree(out, ignore_errors=True)
            results[name] = row
            print(name, json.dumps(row))
            sys.stdout.flush()
    caught = sum(1 for r in results.values() if any(isinstance(v, dict) and v.get('exit') == 1 for v in r.values()))
    print('caught %d of %d' % (caught, len(results)))
    if '--write' in argv or '--merge' in argv:
        # seeded/results.json accumulates rows over partial runs (--merge <log> imports the printed rows of an earlier run)
        rj = os.path.join(SEEDED, 'results.json')
        allres = json.load(open(rj)) if os.path.exists(rj) else {}
        for a in argv:
            if a.endswith('.log') and os.path.exists(a):
                for line in open(a):
                    nm, _, rest = line.partition(' ')
                    if rest.startswith('{') and os.path.isfile(os.path.join(SEEDED, nm, 'meta.json')):
                        row_ = json.loads(rest)
                        if row_.get('tests_pass') is None and allres.get(nm, {}).get('tests_pass') is not None:
                            row_['tests_pass'] = allres[nm]['tests_pass']
                        allres[nm] = row_
        for k_, row_ in results.items():
            if 'tests_pass' not in row_ and 'tests_pass' in allres.get(k_, {}):
                row_['tests_pass'] = allres[k_]['tests_pass']    # the suite verdict of an earlier --tests run stays valid for the same patch
            allres[k_] = row_
        results = {k: v for k, v in allres.items() if os.path.isfile(os.path.join(SEEDED, k, 'meta.json'))}
        json.dump(results, open(rj, 'w'), indent=1, sort_keys=True)
        retired = set(k for k in results if json.load(open(os.path.join(SEEDED, k, 'meta.json'))).get('retired'))
        caught = sum(1 for k, r in results.items() if k not in retired and any(isinstance(v, dict) and v.get('exit') == 1 for v in r.values()))
        # seeded/RESULTS.md: which check catches which seeded change (regenerated by a full run)
        lines = ['# Seeded changes and the checks that catch them', '',
                 'Generated by `/venv/bin/python -m mc.mutants --tests --write` (tier %s). Each change was applied to a scratch worktree of' % tier,
                 '/repo HEAD; "demo" = the author\'s demonstration exits 0 on the clean tree and 1 with the change; "suite" = the repository\'s',
                 'own tests still pass with the change; a check "catches" a change when it exits 1 with a confirmed VIOLATION line.', '',
                 '| change | property | demo | suite | caught by | not caught by | what it is |', '|---|---|---|---|---|---|---|']
        for name in sorted(results):
            r = results[name]
            meta = json.load(open(os.path.join(SEEDED, name, 'meta.json')))
            yes = [k for k, v in r.items() if isinstance(v, dict) and v.get('exit') == 1]
            no = [k for k, v in r.items() if isinstance(v, dict) and v.get('exit') != 1]
            lines.append('| %s | %s | %s | %s | %s | %s | %s |' % (
                name, r.get('property'), 'ok' if (r.get('demo_exit_clean') == 0 and r.get('demo_exit') == 1) else 'BAD',
                {True: 'passes', False: 'FAILS', None: '-'}[r.get('tests_pass')], ', '.join(yes) or '**none**', ', '.join(no) or '-',
                ('RETIRED (see meta.json): ' if meta.get('retired') else '') + (meta.get('summary') or '').replace('|', '/').replace('\n', ' ')[:160]))
        lines += ['', 'caught %d of %d (%d retired changes not counted: %s)' % (caught, len(results) - len(retired), len(retired), ', '.join(sorted(retired)) or '-')]
        with open(os.path.join(SEEDED, 'RESULTS.md'), 'w') as f:
            f.write('\n'.join(lines) + '\n')
    return 0


if __name__ == '__main__':
    sys.exit(main(sys.argv))
