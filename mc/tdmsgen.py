"""Abstract TDMS semantics and an independent byte encoder (the reference model).

Written from the NI "TDMS File Format Internal Structure" description.  This module
imports NOTHING from nptdms.  All values are carried as their canonical little-endian
byte strings, so every comparison made with it is bit-exact.

A *history* is a list of segment specs (plain dicts, JSON-friendly):

  {'meta': bool, 'newlist': bool, 'interleaved': bool, 'big': bool,
   'objects': [ {'path': str, 'enc': [...], 'props': [[name, type, value_hex], ...]} ],
   'chunks': int, 'pad': int, 'marker': bool, 'rawflag': 'auto'|True|False, 'version': 4713}

  enc is one of
     ['FULL', type_name, n]            fixed-width type, n values per chunk
     ['FULL', 'String', n, B]          n strings per chunk, B bytes of text per chunk
     ['FULL', 'String', n, B, [hex..]] the same with explicit values (hex of the UTF-8 bytes)
     ['FULL', type, n, [hex..]]        fixed-width type with explicit values (canonical little-endian hex; k*n values, chunk c takes block c mod k)
     ['SAME']                          raw data index "matches previous" (0x00000000)
     ['NODATA']                        no raw data (0xFFFFFFFF)
     ['DAQMX', {...}]                  DAQmx raw data index, see daqmx_index()
"""
import struct

# name -> (type code, size or None, struct char or None)
TYPES = {
    'Int8': (1, 1, 'b'), 'Int16': (2, 2, 'h'), 'Int32': (3, 4, 'i'), 'Int64': (4, 8, 'q'),
    'Uint8': (5, 1, 'B'), 'Uint16': (6, 2, 'H'), 'Uint32': (7, 4, 'I'), 'Uint64': (8, 8, 'Q'),
    'SingleFloat': (9, 4, 'f'), 'DoubleFloat': (10, 8, 'd'),
    'SingleFloatWithUnit': (0x19, 4, 'f'), 'DoubleFloatWithUnit': (0x1A, 8, 'd'),
    'String': (0x20, None, None), 'Boolean': (0x21, 1, 'B'), 'TimeStamp': (0x44, 16, None),
    'ComplexSingleFloat': (0x08000c, 8, None), 'ComplexDoubleFloat': (0x10000d, 16, None),
}
T17 = list(TYPES)
# numpy dtype string (native little endian) the reader is expected to produce
NPTYPE = {
    'Int8': '|i1', 'Int16': '<i2', 'Int32': '<i4', 'Int64': '<i8',
    'Uint8': '|u1', 'Uint16': '<u2', 'Uint32': '<u4', 'Uint64': '<u8',
    'SingleFloat': '<f4', 'DoubleFloat': '<f8', 'SingleFloatWithUnit': '<f4',
    'DoubleFloatWithUnit': '<f8', 'Boolean': '|b1',
    'ComplexSingleFloat': '<c8', 'ComplexDoubleFloat': '<c16',
    'String': '|O', 'TimeStamp': 'ts',
}
# component width used for byte swapping (None = not swappable as a unit)
_COMPONENT = {'ComplexSingleFloat': 4, 'ComplexDoubleFloat': 8}

TOC_META, TOC_NEWLIST, TOC_RAW, TOC_INTERLEAVED, TOC_BIG, TOC_DAQMX = 2, 4, 8, 32, 64, 128
LEAD_IN = 28
UNKNOWN_LEN = 0xFFFFFFFFFFFFFFFF

# DAQmx scaler type codes -> (size, struct char)
DAQMX_TYPES = {0: (1, 'B'), 1: (1, 'b'), 2: (2, 'H'), 3: (2, 'h'), 4: (4, 'I'), 5: (4, 'i'),
               6: (8, 'Q'), 7: (8, 'q'), 8: (4, 'f'), 9: (8, 'd')}
DAQMX_NP = {0: '|u1', 1: '|i1', 2: '<u2', 3: '<i2', 4: '<u4', 5: '<i4', 6: '<u8', 7: '<i8',
            8: '<f4', 9: '<f8'}
FORMAT_CHANGING, DIGITAL_LINE = 0x1269, 0x126A


# ---------------------------------------------------------------------------------------
# value pools: canonical little-endian byte strings
# ---------------------------------------------------------------------------------------

def _ints(fmt, size, signed):
    lo = -(1 << (8 * size - 1)) if signed else 0
    hi = (1 << (8 * size - 1)) - 1 if signed else (1 << (8 * size)) - 1
    pat = int.from_bytes(bytes(range(1, size + 1)), 'big')
    if pat > hi:
        pat -= 1 << (8 * size)
    vals = [1, hi, 0, lo, (-1 if signed else hi - 1), pat, 2, (hi // 3)]
    return [struct.pack('<' + fmt, v) for v in vals]


def _f32():
    return [struct.pack('<f', 1.5), struct.pack('<f', -0.0), bytes.fromhex('0000807f'),
            bytes.fromhex('000080ff'), bytes.fromhex('0100c07f'),  # quiet NaN with payload
            bytes.fromhex('01000000'),  # denormal
            struct.pack('<f', 3.4028234663852886e38), struct.pack('<f', 0.0),
            bytes.fromhex('d2040080'), struct.pack('<f', -2.25)]


def _f64():
    return [struct.pack('<d', 1.5), struct.pack('<d', -0.0), bytes.fromhex('000000000000f07f'),
            bytes.fromhex('000000000000f0ff'), bytes.fromhex('010000000000f87f'),
            bytes.fromhex('0100000000000000'), struct.pack('<d', 1.7976931348623157e308),
            struct.pack('<d', 0.0), bytes.fromhex('efcdab89674523ff'),  # NaN-ish payload (neg)
            struct.pack('<d', -2.25)]


def _ts(seconds, fractions):
    return struct.pack('<Qq', fractions, seconds)


POOLS = {
    'Int8': _ints('b', 1, True), 'Int16': _ints('h', 2, True), 'Int32': _ints('i', 4, True),
    'Int64': _ints('q', 8, True), 'Uint8': _ints('B', 1, False), 'Uint16': _ints('H', 2, False),
    'Uint32': _ints('I', 4, False), 'Uint64': _ints('Q', 8, False),
    'SingleFloat': _f32(), 'DoubleFloat': _f64(),
    'SingleFloatWithUnit': _f32()[::-1], 'DoubleFloatWithUnit': _f64()[::-1],
    'Boolean': [b'\x01', b'\x00', b'\x01', b'\x01', b'\x00'],
    'TimeStamp': [_ts(3600000000, 1 << 63), _ts(0, 0), _ts(-1, (1 << 64) - 1),
                  _ts(-2082844800, 1), _ts(3786825600, 0x123456789ABCDEF0),
                  _ts(1, 18446744073709), _ts(86400 * 365 * 50, 922337203685477581)],
}
POOLS['ComplexSingleFloat'] = [a + b for a, b in zip(_f32(), _f32()[3:] + _f32()[:3])]
POOLS['ComplexDoubleFloat'] = [a + b for a, b in zip(_f64(), _f64()[3:] + _f64()[:3])]

_UNITS = ['a', 'é', '日', "'", '/', ' ', 'Z', '本', '\x00', '́', 'q', '\ufeff']   # U+FEFF: a BOM is ordinary text inside a TDMS string


def mkstr(nbytes, k):
    """A valid UTF-8 string of exactly nbytes bytes, varied by k."""
    out, left, i = [], nbytes, k
    while left > 0:
        u = _UNITS[i % len(_UNITS)]
        i += 1
        if len(u.encode('utf-8')) <= left:
            out.append(u)
            left -= len(u.encode('utf-8'))
    return ''.join(out)


def _path_offset(path):
    return sum(path.encode('utf-8')) % 7


def fixed_value(tname, path, k, seed=0):
    """The k-th value of a channel.  The pool (extremes, NaN payloads, ...) is dealt cyclically; from the second round on the low
    bits of each value are XOR-ed with the round number, so that no two blocks of a channel are equal (a reader that fetches the
    wrong chunk must not get the right values by periodicity).  Booleans stay 0/1."""
    pool = POOLS[tname]
    i = k + _path_offset(path) + seed
    v = pool[i % len(pool)]
    era = k // len(pool)
    if era == 0 or tname == 'Boolean' or len(pool) < 5:
        return v
    size = 8 if tname == 'TimeStamp' else (_COMPONENT.get(tname) or len(v))     # the fractions / the first component / the value
    low = min(size, 2)
    x = (int.from_bytes(v[:low], 'little') ^ (era * 37 + 1)) & ((1 << (8 * low)) - 1)
    return x.to_bytes(low, 'little') + v[low:]


def string_values(n, nbytes, path, k, seed=0):
    """n strings whose UTF-8 encodings total exactly nbytes bytes."""
    if n == 0:
        return []
    lens, left = [], nbytes
    for i in range(n - 1):
        li = min(left, (i + k + seed + _path_offset(path)) % 4)
        lens.append(li)
        left -= li
    lens.append(left)
    return [mkstr(li, k + i + seed).encode('utf-8') for i, li in enumerate(lens)]


def swap(tname, v):
    """Big-endian encoding of a canonical (LE) value."""
    if tname == 'TimeStamp':
        return v[8:16][::-1] + v[0:8][::-1]
    c = _COMPONENT.get(tname)
    if c:
        return v[:c][::-1] + v[c:][::-1]
    return v[::-1]


# ---------------------------------------------------------------------------------------
# property values
# ---------------------------------------------------------------------------------------

PROP_TYPES = [t for t in T17 if not t.startswith('Complex')]


def prop_python_value(tname, vhex):
    """What a reader must hand back for a property of this type (independent decoding)."""
    v = bytes.fromhex(vhex)
    if tname == 'String':
        return v.decode('utf-8')
    if tname == 'TimeStamp':
        fr, sec = struct.unpack('<Qq', v)
        return ('ts', sec, fr)
    if tname == 'Boolean':
        return bool(v[0])
    return struct.unpack('<' + TYPES[tname][2], v)[0]


def _enc_prop(name, tname, vhex, E):
    v = bytes.fromhex(vhex)
    nb = name.encode('utf-8')
    out = struct.pack(E + 'I', len(nb)) + nb + struct.pack(E + 'I', TYPES[tname][0])
    if tname == 'String':
        return out + struct.pack(E + 'I', len(v)) + v
    return out + (v if E == '<' else swap(tname, v))


# ---------------------------------------------------------------------------------------
# abstract semantics
# ---------------------------------------------------------------------------------------

class Forbidden(Exception):
    def __init__(self, kind, seg, path=None):
        Exception.__init__(self, kind, seg, path)
        self.kind, self.seg, self.path = kind, seg, path


def idx_of(enc):
    """Abstract raw-data index of a FULL / DAQMX encoding."""
    if enc[0] == 'FULL':
        t, n = enc[1], enc[2]
        if t == 'String':
            d = {'k': 'std', 't': t, 'n': n, 'B': enc[3] if len(enc) > 3 else 3 * n + 1 if n else 0}
            if len(enc) > 4:   # explicit values (hex of the UTF-8 bytes), the same in every chunk
                d['vals'] = list(enc[4])
                assert len(d['vals']) == n and sum(len(v) // 2 for v in d['vals']) == d['B'], 'explicit string values do not match n / B'
            return d
        d = {'k': 'std', 't': t, 'n': n}
        if len(enc) > 3:       # explicit canonical (little-endian) values as hex; chunk c takes values c*n .. c*n+n-1, cyclically
            d['vals'] = list(enc[3])
            assert n and len(d['vals']) % n == 0 and all(len(v) // 2 == TYPES[t][1] for v in d['vals']), 'explicit values do not match n / type'
        return d
    if enc[0] == 'DAQMX':
        d = dict(enc[1])
        d['k'] = 'daqmx'
        return d
    raise ValueError(enc)


def idx_type(idx):
    if idx is None:
        return None
    if idx['k'] == 'std':
        return idx['t']
    return ('daqmx', idx['dtype'], tuple(sorted((s[4], s[0]) for s in idx['scalers'])))   # the order of the scaler records carries no meaning


def idx_bytes(idx):
    """Bytes one chunk holds for this object (contiguous layout; not DAQmx)."""
    if idx is None:
        return 0
    if idx['t'] == 'String':
        return 4 * idx['n'] + idx['B'] if idx['n'] else 0
    return idx['n'] * TYPES[idx['t']][1]


def daqmx_buffer_dims(data_objs):
    """[(rows, width)] per raw buffer for the data-carrying DAQmx objects of a segment."""
    widths = None
    rows = None
    for (_p, idx) in data_objs:
        if widths is None:
            widths = list(idx['widths'])
            rows = [0] * len(widths)
        for s in idx['scalers']:
            rows[s[1]] = max(rows[s[1]], idx['n'])
    if widths is None:
        return []
    return list(zip(rows, widths))


class Ref(object):
    """Reference interpretation of a history."""

    def __init__(self):
        self.order = []            # object paths in order of first appearance
        self.props = {}            # path -> {name: (type, python value)} insertion-ordered
        self.dtype = {}            # path -> type name / daqmx descriptor / None
        self.values = {}           # path -> list of canonical value bytes (std channels)
        self.scaler_values = {}    # path -> {scale_id: list of value bytes}
        self.seg_counts = []       # per segment {path: values in that segment}
        self.segments = []         # per segment plan used by the encoder
        self.forbidden = []        # [(kind, seg, path)] encountered (lenient mode only)
        self.states = []           # abstract state key after each segment

    def length(self, path):
        if path in self.scaler_values and self.scaler_values[path]:
            return len(next(iter(self.scaler_values[path].values())))
        return len(self.values.get(path, []))


def interpret(history, seed=0, lenient=False, filler_phase=0):
    """Run the abstract machine.  Raises Forbidden unless lenient."""
    ref = Ref()
    active = []       # list of [path, idx, has_data]
    last = {}         # path -> (idx, has_data)
    counters = {}     # path -> running value index (for the value pools)

    def note(path):
        if path not in ref.props:
            ref.order.append(path)
            ref.props[path] = {}
            ref.dtype.setdefault(path, None)
            ref.values[path] = []

    def forbid(kind, seg, path=None):
        if not lenient:
            raise Forbidden(kind, seg, path)
        ref.forbidden.append((kind, seg, path))

    for si, seg in enumerate(history):
        if not seg.get('meta', True):
            if si == 0:
                forbid('first-segment-without-metadata', si)
                active = []
        else:
            work = [] if (seg.get('newlist', True) or si == 0) else [list(e) for e in active]
            pos = {e[0]: i for i, e in enumerate(work)}
            for o in seg['objects']:
                path, enc = o['path'], o['enc']
                note(path)
                if path in pos:
                    cur = work[pos[path]]
                    idx0, hd0 = cur[1], cur[2]
                elif path in last:
                    idx0, hd0 = last[path]
                    cur = None
                else:
                    idx0, hd0 = None, False
                    cur = None
                if enc[0] == 'NODATA':
                    idx1, hd1 = idx0, False
                elif enc[0] == 'SAME':
                    if idx0 is None:
                        forbid('same-without-previous-index', si, path)
                    idx1, hd1 = idx0, (idx0 is not None)
                else:
                    idx1, hd1 = idx_of(enc), True
                    t1 = idx_type(idx1)
                    if ref.dtype.get(path) is not None and ref.dtype[path] != t1:
                        forbid('data-type-change', si, path)
                    else:
                        ref.dtype[path] = t1
                if cur is not None:
                    cur[1], cur[2] = idx1, hd1
                else:
                    pos[path] = len(work)
                    work.append([path, idx1, hd1])
                for (name, tname, vhex) in o.get('props', ()):
                    ref.props[path][name] = (tname, prop_python_value(tname, vhex))
            active = work
        for e in active:
            last[e[0]] = (e[1], e[2])
        data_objs = [(e[0], e[1]) for e in active if e[2] and e[1] is not None]
        is_daqmx = bool(data_objs) and data_objs[0][1]['k'] == 'daqmx'
        if any((d[1]['k'] == 'daqmx') != is_daqmx for d in data_objs):
            forbid('mixed-daqmx', si)
        if is_daqmx:
            dims = daqmx_buffer_dims(data_objs)
            chunk_size = sum(r * w for r, w in dims)
        else:
            dims = None
            chunk_size = sum(idx_bytes(i) for _, i in data_objs)
        chunks = seg.get('chunks', 1) if chunk_size else 0
        plan = {'data_objs': data_objs, 'chunk_size': chunk_size, 'chunks': chunks,
                'daqmx': is_daqmx, 'dims': dims, 'chunk_values': [], 'buffers': []}
        counts = {}
        for ci in range(chunks):
            cv = {}
            if is_daqmx:
                bufs = []
                for bi, (r, w) in enumerate(dims):
                    bufs.append(bytes(((filler_phase + 37 * si + 11 * ci + 5 * bi + 7 * j + (j * j) // 3) % 251)
                                      for j in range(r * w)))
                plan['buffers'].append(bufs)
                for path, idx in data_objs:
                    sv = ref.scaler_values.setdefault(path, {})
                    for s in idx['scalers']:
                        code, bi, off, _sfb, sid = s
                        size = DAQMX_TYPES[code][0]
                        w = dims[bi][1]
                        out = sv.setdefault(sid, [])
                        for row in range(idx['n']):
                            if idx['kind'] == 'dl':
                                byte0 = row * w + off // 8
                                raw = bufs[bi][byte0:byte0 + size]
                                ival = int.from_bytes(raw if not seg.get('big') else raw[::-1], 'little')
                                out.append(((ival >> (off % 8)) & 1).to_bytes(size, 'little'))
                            else:
                                byte0 = row * w + off
                                raw = bufs[bi][byte0:byte0 + size]
                                out.append(raw if not seg.get('big') else raw[::-1])
                    counts[path] = counts.get(path, 0) + idx['n']
            else:
                for path, idx in data_objs:
                    k = counters.get(path, 0)
                    if idx['t'] == 'String' and 'vals' in idx:
                        vals = [bytes.fromhex(v) for v in idx['vals']]
                    elif idx['t'] == 'String':
                        vals = string_values(idx['n'], idx['B'], path, k, seed)
                    elif 'vals' in idx:
                        st = (ci * idx['n']) % len(idx['vals'])
                        vals = [bytes.fromhex(v) for v in idx['vals'][st:st + idx['n']]]
                    else:
                        vals = [fixed_value(idx['t'], path, k + j, seed) for j in range(idx['n'])]
                    counters[path] = k + idx['n']
                    cv[path] = vals
                    ref.values[path].extend(vals)
                    counts[path] = counts.get(path, 0) + idx['n']
            plan['chunk_values'].append(cv)
        ref.seg_counts.append(counts)
        ref.segments.append(plan)
        ref.states.append(state_key(active, last, ref.dtype))
    return ref


def state_key(active, last, dtype):
    def ik(i):
        if i is None:
            return None
        return tuple(sorted((k, (tuple(map(tuple, v)) if k == 'scalers' else tuple(v) if isinstance(v, list) else v))
                            for k, v in i.items()))
    return (tuple((p, ik(i), h) for p, i, h in active),
            tuple(sorted((p, ik(i), h) for p, (i, h) in last.items())),
            tuple(sorted((p, str(t)) for p, t in dtype.items())))


# ---------------------------------------------------------------------------------------
# encoder
# ---------------------------------------------------------------------------------------

def _enc_str(s, E):
    b = s.encode('utf-8')
    return struct.pack(E + 'I', len(b)) + b


def _enc_index(enc, E):
    if enc[0] == 'NODATA':
        return struct.pack(E + 'I', 0xFFFFFFFF)
    if enc[0] == 'SAME':
        return struct.pack(E + 'I', 0)
    if enc[0] == 'FULL':
        idx = idx_of(enc)
        code = TYPES[idx['t']][0]
        if idx['t'] == 'String':
            return struct.pack(E + 'IIIQQ', 28, code, 1, idx['n'], idx_bytes(idx))
        return struct.pack(E + 'IIIQ', 20, code, 1, idx['n'])
    d = enc[1]
    head = FORMAT_CHANGING if d['kind'] == 'fc' else DIGITAL_LINE
    tcode = 0xFFFFFFFF if d['dtype'] == 'DaqMxRawData' else TYPES[d['dtype']][0]
    out = struct.pack(E + 'IIIQI', head, tcode, 1, d['n'], len(d['scalers']))
    for (code, bi, off, sfb, sid) in d['scalers']:
        if d['kind'] == 'fc':
            out += struct.pack(E + 'IIIII', code, bi, off, sfb, sid)
        else:
            out += struct.pack(E + 'IIIBI', code, bi, off, sfb, sid)
    out += struct.pack(E + 'I', len(d['widths']))
    for w in d['widths']:
        out += struct.pack(E + 'I', w)
    return out


def encode_metadata(seg, E, layout=None, base=0):
    out = struct.pack(E + 'I', len(seg['objects']))
    for o in seg['objects']:
        if layout is not None:
            layout.append({'role': 'object', 'path': o['path'], 'offset': base + len(out)})
        out += _enc_str(o['path'], E)
        if layout is not None:
            layout.append({'role': 'index', 'path': o['path'], 'offset': base + len(out)})
        out += _enc_index(o['enc'], E)
        props = o.get('props', ())
        out += struct.pack(E + 'I', len(props))
        for (name, tname, vhex) in props:
            out += _enc_prop(name, tname, vhex, E)
    return out


def _val(tname, v, big):
    return swap(tname, v) if big else v


def encode_chunk(plan, ci, seg, extents=None, base=0):
    big = bool(seg.get('big'))
    E = '>' if big else '<'
    if plan['daqmx']:
        return b''.join(plan['buffers'][ci])
    cv = plan['chunk_values'][ci]
    objs = plan['data_objs']
    if seg.get('interleaved') and not (len(objs) == 1 and objs[0][1]['t'] == 'String'):
        n = objs[0][1]['n'] if objs else 0
        rows = []
        for r in range(n):
            for path, idx in objs:
                rows.append(_val(idx['t'], cv[path][r], big))
        return b''.join(rows)
    out = b''
    for path, idx in objs:
        start = len(out)
        if idx['t'] == 'String':
            off = 0
            tab = b''
            for s in cv[path]:
                off += len(s)
                tab += struct.pack(E + 'I', off)
            out += tab + b''.join(cv[path])
        else:
            out += b''.join(_val(idx['t'], v, big) for v in cv[path])
        if extents is not None:
            extents.setdefault(path, []).append((ci, base + start, base + len(out)))
    return out


def encode(history, seed=0, ref=None, index=False, filler_phase=0):
    """-> (data bytes, index bytes or None, layout, ref).  Forbidden histories are laid out leniently."""
    if ref is None:
        ref = interpret(history, seed=seed, lenient=True, filler_phase=filler_phase)
    data = bytearray()
    idxb = bytearray() if index else None
    layout = []
    for si, seg in enumerate(history):
        plan = ref.segments[si]
        big = bool(seg.get('big'))
        E = '>' if big else '<'
        start = len(data)
        fields = []
        meta = encode_metadata(seg, E, fields, start + LEAD_IN) if seg.get('meta', True) else b''
        pad = seg.get('pad', 0)
        extents = {}
        raw = bytearray()
        chunk_starts = []
        for ci in range(plan['chunks']):
            chunk_starts.append(start + LEAD_IN + len(meta) + pad + len(raw))
            raw += encode_chunk(plan, ci, seg, extents, start + LEAD_IN + len(meta) + pad + len(raw))
        if seg.get('short'):
            # 'less data than expected': the raw data stops `short` bytes early and the lead-in says so (the segment is complete by
            # its own offsets; what its last chunk means is not defined by the format - only differential oracles use such files)
            raw = raw[:max(0, len(raw) - seg['short'])]
        toc = 0
        if seg.get('meta', True):
            toc |= TOC_META
            if seg.get('newlist', True):
                toc |= TOC_NEWLIST
        rf = seg.get('rawflag', 'auto')
        if (rf == 'auto' and len(raw) > 0) or rf is True:
            toc |= TOC_RAW
        if seg.get('interleaved'):
            toc |= TOC_INTERLEAVED
        if big:
            toc |= TOC_BIG
        if plan['daqmx']:
            toc |= TOC_DAQMX
        nso = len(meta) + pad + len(raw)
        lead = struct.pack('<I', toc) + struct.pack(
            E + 'iQQ', seg.get('version', 4713), UNKNOWN_LEN if seg.get('marker') else nso, len(meta) + pad)
        data += b'TDSm' + lead + meta + b'\xA5' * pad + raw
        if index:
            idxb += b'TDSh' + lead + meta + b'\xA5' * pad
        layout.append({'start': start, 'meta_start': start + LEAD_IN, 'meta_len': len(meta),
                       'data_start': start + LEAD_IN + len(meta) + pad, 'end': len(data),
                       'chunk_size': plan['chunk_size'], 'chunks': plan['chunks'],
                       'chunk_starts': chunk_starts, 'extents': extents, 'fields': fields,
                       'interleaved': bool(seg.get('interleaved')), 'daqmx': plan['daqmx'],
                       'data_objs': [(p, i) for p, i in plan['data_objs']], 'dims': plan['dims']})
    return bytes(data), (bytes(idxb) if index else None), layout, ref


def explicit(history, seed=0):
    """The fully explicit encoding of the same content: every segment has metadata and a
    new object list, restating every active object in full (or as 'no data')."""
    active, last = [], {}
    out = []
    for si, seg in enumerate(history):
        if seg.get('meta', True):
            work = [] if (seg.get('newlist', True) or si == 0) else [list(e) for e in active]
            pos = {e[0]: i for i, e in enumerate(work)}
            for o in seg['objects']:
                path, enc = o['path'], o['enc']
                if path in pos:
                    cur = work[pos[path]]
                    idx0 = cur[1]
                elif path in last:
                    idx0 = last[path][0]
                    cur = None
                else:
                    idx0, cur = None, None
                if enc[0] == 'NODATA':
                    e1 = (idx0, False)
                elif enc[0] == 'SAME':
                    e1 = (idx0, True)
                else:
                    e1 = (enc, True)
                if cur is not None:
                    cur[1], cur[2] = e1
                else:
                    pos[path] = len(work)
                    work.append([path, e1[0], e1[1]])
            active = work
            props = {o['path']: o.get('props', []) for o in seg['objects']}
        else:
            props = {}
        for e in active:
            last[e[0]] = (e[1], e[2])
        s2 = dict(seg)
        s2['meta'], s2['newlist'] = True, True
        s2['objects'] = [{'path': p, 'enc': (list(i) if (h and i is not None) else ['NODATA']),
                          'props': props.get(p, [])} for p, i, h in active]
        out.append(s2)
    return out


def seg(objects, **kw):
    """Convenience constructor for a segment spec."""
    s = {'meta': True, 'newlist': True, 'interleaved': False, 'big': False, 'objects': [], 'chunks': 1}
    s.update(kw)
    s['objects'] = [{'path': o[0], 'enc': list(o[1]), 'props': [list(p) for p in (o[2] if len(o) > 2 else [])]}
                    for o in objects]
    return s


def describe(history):
    """Compact one-line-per-segment description for evidence samples."""
    out = []
    for s in history:
        if not s.get('meta', True):
            out.append('nometa x%d%s' % (s.get('chunks', 1), ' BE' if s.get('big') else ''))
            continue
        objs = ','.join('%s=%s' % (o['path'].split("'")[-2] if "'" in o['path'] else '/',
                                   o['enc'][0] if o['enc'][0] != 'FULL' else 'FULL(%s,%s)' % (o['enc'][1], o['enc'][2]))
                        + ('+p' if o.get('props') else '') for o in s['objects'])
        flags = ''.join([',new' if s.get('newlist', True) else '', ',il' if s.get('interleaved') else '',
                         ',BE' if s.get('big') else ''])
        out.append('meta%s:[%s]x%d' % (flags, objs, s.get('chunks', 1)))
    return out
