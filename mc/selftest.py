"""Validates the reference model (never decides a property).  exit 0 ok / 2 failure."""
import sys


def main():
    from . import harness as H, tdmsgen as G
    fails = []
    # 1. generator <-> reader agreement on an explicit family is NOT checked here (that is C01);
    #    only internal consistency of the model: explicit(H) has the same interpretation as H.
    a, b = "/'g'/'a'", "/'g'/'b'"
    hs = [[G.seg([(a, ['FULL', 'Int32', 2]), (b, ['FULL', 'String', 2, 5])], chunks=2),
           G.seg([(a, ['NODATA'])], newlist=False), G.seg([], meta=False),
           G.seg([(a, ['SAME']), (b, ['SAME'])], newlist=True, chunks=3)]]
    for h in hs:
        r1 = G.interpret(h)
        r2 = G.interpret(G.explicit(h))
        if r1.values != r2.values or r1.order != r2.order:
            fails.append('explicit() changes the interpretation')
    try:
        from . import tdmsparse as P
        fails.extend(P.selftest())
    except ImportError:
        pass
    for f in fails:
        print('selftest FAILED:', f)
    print('selftest: %s' % ('ok' if not fails else '%d failures' % len(fails)))
    return 2 if fails else 0


if __name__ == '__main__':
    sys.exit(main())
