"""Regenerates MANIFEST.json from mc/props/*.py (run: /venv/bin/python -m mc.mkmanifest)."""
import importlib
import json
import os

ROOT = os.path.dirname(os.path.dirname(os.path.abspath(__file__)))
ALL = ['C%02d' % i for i in range(1, 21)]


def main():
    checks, na = [], []
    for pid in ALL:
        if not os.path.exists(os.path.join(ROOT, 'mc', 'props', pid.lower() + '.py')):
            na.append({'property_id': pid, 'reason': 'check not built yet (work in progress; the technique applies, see DESIGN.md section 4)'})
            continue
        mod = importlib.import_module('mc.props.' + pid.lower())
        checks.append({
            'property_id': pid,
            'quick_cmd': './check %s quick' % pid,
            'thorough_cmd': './check %s thorough' % pid,
            'evidence_file': 'evidence/%s.json' % pid,
            'replay_cmd_template': './check %s --replay {path}' % pid,
            'engine': 'mc-explorer',
            'level_claimed': {'category': mod.LEVEL, 'text': mod.LEVEL_TEXT, 'design_ref': 'DESIGN.md section 4, ' + pid},
            'level_note': mod.LEVEL_NOTE,
            'technique': mod.TECHNIQUE,
        })
    man = {
        'version': 1,
        'setup_cmd': './setup.sh',
        'hooks': {'guard': 'NPTDMS_VERIF', 'enable': 'no hooks are needed: checks import /repo directly (pure Python, no build step)',
                  'baseline_off_cmd': 'cd /repo && /venv/bin/python -m pytest -ra -q -p no:cacheprovider --timeout=900 --continue-on-collection-errors',
                  'source_commits': [], 'add_only': True},
        'engines': [{'name': 'mc-explorer', 'path': 'mc/', 'serves_properties': [c['property_id'] for c in checks],
                     'kind_free_text': 'hand-written explicit-state / bounded-exhaustive explorer that executes the real nptdms code on every enumerated history, file, operation sequence, cut or fault and compares with an independent reference model (mc/tdmsgen.py)'}],
        'checks': checks,
        'not_applicable': na,
        'notes': 'All checks run /venv/bin/python against /repo working tree (PYTHONPATH-free: sys.path[0]=/repo). See DESIGN.md.',
    }
    with open(os.path.join(ROOT, 'MANIFEST.json'), 'w') as f:
        json.dump(man, f, indent=1)
    print('claimed', [c['property_id'] for c in checks])


if __name__ == '__main__':
    main()
