"""File families shared by several checks (all built with the independent encoder)."""
import itertools

from . import tdmsgen as G

A, B, C = "/'g'/'a'", "/'g'/'b'", "/'h'/'c'"

# ---------------------------------------------------------------------------------------
# F4: windows family (C04 / C19 / C03 cross-section)
# ---------------------------------------------------------------------------------------

F4_OPTIONS = ['abs', 'nod', (1, 1), (2, 1), (1, 2), (2, 2), (3, 2), (2, 3), (4, 3)]
F4_OPTIONS_SMALL = ['abs', 'nod', (2, 1), (1, 2), (2, 3), (4, 3)]
F4_KINDS = ['int', 'intswap', 'il', 'str', 'strb', 'ts', 'daqmx', 'be', 'mixed-il']


def daqmx_enc(n, scalers, widths, kind='fc', dtype='DaqMxRawData'):
    return ['DAQMX', {'kind': kind, 'dtype': dtype, 'n': n, 'scalers': [list(s) for s in scalers],
                      'widths': list(widths)}]


def f4_segment(kind, opt, si=0):
    """One segment of an F4 file: target channel A per `opt`, companion B always present."""
    present = isinstance(opt, tuple)
    n, chunks = opt if present else (2, 1)     # (segments in which the target has no data still hold two rows of the companion)
    if kind == 'intswap':
        # same channels, listed in alternating order from segment to segment (new object list each time)
        objs = [(B, ['FULL', 'Int16', n + 1])]
        if present:
            objs.append((A, ['FULL', 'Int32', n]))
        elif opt == 'nod':
            objs.append((A, ['NODATA']))
        if si % 2:
            objs = objs[::-1]
        return G.seg(objs, chunks=chunks)
    if kind == 'be':        # like 'int', every segment big-endian
        s_ = f4_segment('int', opt, si)
        s_['big'] = True
        return s_
    if kind == 'mixed-il':  # interleaved, byte order alternating from segment to segment
        s_ = f4_segment('il', opt, si)
        s_['big'] = bool(si % 2 == 0)
        return s_
    if kind == 'ones':      # three contiguous channels with the same number of values per chunk (all 1 for options (1, k))
        objs = [(B, ['FULL', 'Int16', n]), (A, ['FULL', 'Int32', n] if present else ['NODATA']), (C, ['FULL', 'Int8', n])]
        if not present and opt != 'nod':
            objs = [o for o in objs if o[0] != A]
        return G.seg(objs, chunks=chunks)
    if kind == 'int':
        objs = [(B, ['FULL', 'Int16', n + 1])]
        if present:
            objs.append((A, ['FULL', 'Int32', n]))
        elif opt == 'nod':
            objs.append((A, ['NODATA']))
        return G.seg(objs, chunks=chunks)
    if kind == 'il':
        objs = [(B, ['FULL', 'Int16', n])]
        if present:
            objs.append((A, ['FULL', 'Int32', n]))
        elif opt == 'nod':
            objs.append((A, ['NODATA']))
        return G.seg(objs, chunks=chunks, interleaved=True)
    if kind == 'str':
        objs = []
        if present:
            objs.append((A, ['FULL', 'String', n, 2 * n + 1]))
        elif opt == 'nod':
            objs.append((A, ['NODATA']))
        objs.append((B, ['FULL', 'Int16', n + 1]))
        return G.seg(objs, chunks=chunks)
    if kind == 'strb':
        objs = [(B, ['FULL', 'String', n + 1, 5])]
        if present:
            objs.append((A, ['FULL', 'Int32', n]))
        elif opt == 'nod':
            objs.append((A, ['NODATA']))
        return G.seg(objs, chunks=chunks)
    if kind == 'ts':
        objs = [(B, ['FULL', 'Int8', n + 1])]
        if present:
            objs.append((A, ['FULL', 'TimeStamp', n]))
        elif opt == 'nod':
            objs.append((A, ['NODATA']))
        return G.seg(objs, chunks=chunks)
    if kind == 'daqmx':
        widths = [8]
        objs = [(B, daqmx_enc(n, [(3, 0, 0, 0, 0)], widths))]
        if present:
            objs.append((A, daqmx_enc(n, [(5, 0, 2, 0, 0), (2, 0, 6, 0, 1)], widths)))
        elif opt == 'nod':
            objs.append((A, ['NODATA']))
        return G.seg(objs, chunks=chunks)
    raise ValueError(kind)


def f4_histories(kind, depth, options=None):
    """All option tuples of exactly `depth` segments in which A has data at least once."""
    options = F4_OPTIONS if options is None else options
    for opts in itertools.product(options, repeat=depth):
        if not any(isinstance(o, tuple) for o in opts):
            continue
        yield opts


def f4_build(kind, opts, seed=0):
    if kind == 'shortmid-daqmx':
        hist = f4_build('daqmx', opts, seed)
        for si, (s_, o) in enumerate(zip(hist, opts)):
            if isinstance(o, tuple) and (si < len(hist) - 1 or si == 0):
                s_['short'] = 8 if si % 2 == 0 else 12      # one row of the 8-byte wide buffer / one and a half
        return hist
    if kind == 'shortmid-slow':
        # a slow channel (one value per chunk) stored in front of a faster one, in a segment whose last chunk is about half there:
        # proportionally the slow channel gets no value of that chunk while the one behind it still does
        hist = []
        for si, o in enumerate(opts):
            if isinstance(o, tuple):
                n, chunks = o
                s_ = G.seg([(B, ['FULL', 'Int16', 1]), (A, ['FULL', 'Int32', n])], chunks=chunks)
                if si < len(opts) - 1 or si == 0:
                    s_['short'] = 2 * n + 1
                hist.append(s_)
            else:
                hist.append(f4_segment('int', o, si))
        return hist
    if kind in ('shortmid-every', 'shortmid-il-every'):
        # the first segment stops EVERY possible number of bytes short of its last chunk (option (n, chunks, short))
        base = 'int' if kind == 'shortmid-every' else 'il'
        hist = [f4_segment(base, o[:2] if isinstance(o, tuple) else o, si) for si, o in enumerate(opts)]
        hist[0]['short'] = opts[0][2]
        return hist
    if kind in ('shortmid', 'shortmid-il'):
        # segments that are complete by their own offsets but whose raw data stops inside the last chunk - also in the middle of
        # the file ("less data than expected"); what such a chunk means is fixed by the eager read, the oracle is differential
        base = 'int' if kind == 'shortmid' else 'il'
        hist = [f4_segment(base, o, si) for si, o in enumerate(opts)]
        for si, (s_, o) in enumerate(zip(hist, opts)):
            if isinstance(o, tuple) and (si < len(hist) - 1 or si == 0):
                n = o[0]
                if base == 'il':
                    s_['short'] = 6                      # one row (Int16 + Int32)
                else:
                    s_['short'] = 4 if si % 2 == 0 else 4 * n + 2   # A loses one value / A loses the chunk and B one value
        return hist
    hist = [f4_segment(kind, o, si) for si, o in enumerate(opts)]
    if kind == 'daqmx':
        for s in hist:
            done = False
            for o in s['objects']:
                if o['path'] == A and o['enc'][0] == 'DAQMX':
                    o['props'] = DAQMX_SCALE_PROPS
                    done = True
            if done:
                break
    return hist


def _sprop(name, value):
    return [name, 'String', value.encode('utf-8').hex()]


def _dprop(name, value):
    import struct
    return [name, 'DoubleFloat', struct.pack('<d', value).hex()]


def _uprop(name, value):
    import struct
    return [name, 'Uint32', struct.pack('<I', value).hex()]


# scaler 0 and 1 come from the DAQmx raw data; scale 2 = 2*scaler1 + 1 is the channel's output
def f64hex(values):
    import struct
    return [struct.pack('<d', v).hex() for v in values]


def thermocouple_props(i, type_code=10073, direction=0, src=0xFFFFFFFF):
    pre = 'NI_Scale[%d]_' % i
    return [_sprop(pre + 'Scale_Type', 'Thermocouple'), _uprop(pre + 'Thermocouple_Thermocouple_Type', type_code),
            _uprop(pre + 'Thermocouple_Scaling_Direction', direction), _uprop(pre + 'Thermocouple_Input_Source', src)]


def rtd_props(i, src=0xFFFFFFFF):
    pre = 'NI_Scale[%d]_' % i
    return [_sprop(pre + 'Scale_Type', 'RTD'), _dprop(pre + 'RTD_Current_Excitation', 1e-3),
            _dprop(pre + 'RTD_R0_Nominal_Resistance', 100.0), _dprop(pre + 'RTD_A', 3.9083e-3), _dprop(pre + 'RTD_B', -5.775e-7),
            _dprop(pre + 'RTD_C', -4.183e-12), _dprop(pre + 'RTD_Lead_Wire_Resistance', 0.0),
            _uprop(pre + 'RTD_Resistance_Configuration', 2), _uprop(pre + 'RTD_Input_Source', src)]


def linear_props(i, slope, intercept, src=0xFFFFFFFF):
    pre = 'NI_Scale[%d]_' % i
    return [_sprop(pre + 'Scale_Type', 'Linear'), _dprop(pre + 'Linear_Slope', slope), _dprop(pre + 'Linear_Y_Intercept', intercept),
            _uprop(pre + 'Linear_Input_Source', src)]


def add_props(i, left, right):
    pre = 'NI_Scale[%d]_' % i
    return [_sprop(pre + 'Scale_Type', 'Add'), _uprop(pre + 'Add_Left_Operand_Input_Source', left),
            _uprop(pre + 'Add_Right_Operand_Input_Source', right)]


DAQMX_SCALE_PROPS = [
    _uprop('NI_Number_Of_Scales', 3),
    _sprop('NI_Scale[2]_Scale_Type', 'Linear'),
    _dprop('NI_Scale[2]_Linear_Slope', 2.0),
    _dprop('NI_Scale[2]_Linear_Y_Intercept', 1.0),
    _uprop('NI_Scale[2]_Linear_Input_Source', 1),
]


def f4_has_gap(opts):
    """A has data, then a segment without A's data, then data again."""
    seen = False
    gap = False
    for o in opts:
        if isinstance(o, tuple):
            if seen and gap:
                return True
            seen = True
        elif seen:
            gap = True
    return False


# ---------------------------------------------------------------------------------------
# F6: truncation family (C06; reused by C20 / C09)
# ---------------------------------------------------------------------------------------

F6_ELEMS = {
    'i16+i64': [('Int16', 3), ('Int64', 2)],
    'f32+ts': [('SingleFloat', 2), ('TimeStamp', 2)],
    'str+i32': [('String', 2), ('Int32', 3)],
    'i32+str': [('Int32', 3), ('String', 2)],
    'str': [('String', 3)],
    'c128+bool': [('ComplexDoubleFloat', 1), ('Boolean', 3)],
}


def _f6_enc(t, n):
    return ['FULL', 'String', n, 2 * n + 1] if t == 'String' else ['FULL', t, n]


def f6_files(tier):
    """-> list of (name, history).  Every file is later cut at every offset."""
    out = []
    paths = [A, B]
    chunk_opts = (1, 2, 3)
    endians = (False, True)
    elem_sets = dict(F6_ELEMS)
    if tier == 'thorough':
        # every ordered pair of representative types, and a three-channel set
        for ta in R8:
            for tb in R8:
                elem_sets.setdefault('%s+%s' % (ta, tb), [(ta, 2), (tb, 3)])
        elem_sets['i8+str+f64'] = [('Int8', 3), ('String', 2), ('DoubleFloat', 1)]
        elem_sets['ts+i16+c64'] = [('TimeStamp', 1), ('Int16', 3), ('ComplexSingleFloat', 2)]
    for big in endians:
        for ename, elems in elem_sets.items():
            if big and tier == 'quick' and ename not in ('f32+ts', 'str+i32'):
                continue
            paths = [A, B, C][:max(2, len(elems))]
            objs = [(paths[i], _f6_enc(t, n)) for i, (t, n) in enumerate(elems)]
            objs2 = [(paths[i], _f6_enc(t, n + 1)) for i, (t, n) in enumerate(elems)]
            sized = all(t != 'String' for t, _ in elems)
            layouts = ['contiguous'] + (['interleaved'] if (sized or (len(elems) == 1 and elems[0][0] == 'String')) else [])
            for layout in layouts:
                il = layout == 'interleaved'
                if il:
                    n0 = elems[0][1]
                    objs_l = [(paths[i], _f6_enc(t, n0)) for i, (t, _n) in enumerate(elems)]
                    objs2_l = [(paths[i], _f6_enc(t, n0 + 1)) for i, (t, _n) in enumerate(elems)]
                else:
                    objs_l, objs2_l = objs, objs2
                for chunks in chunk_opts:
                    if tier == 'quick' and chunks == 3 and ename not in ('i16+i64', 'str+i32'):
                        continue
                    S = lambda o=objs_l, c=chunks, **kw: G.seg(o, chunks=c, interleaved=il, big=big, **kw)
                    S2 = lambda c=chunks: G.seg(objs2_l, chunks=c, interleaved=il, big=big)
                    NM = lambda c=chunks: G.seg([], meta=False, chunks=c, interleaved=il, big=big)
                    INH = lambda c=chunks: G.seg([(paths[0], ['SAME'])] + ([(paths[1], ['NODATA'])] if len(elems) > 1 else []),
                                                 newlist=False, chunks=c, interleaved=il, big=big)
                    PO = lambda: G.seg([('/', ['NODATA'], [['author', 'String', 'c3a9e697a5'], ['n', 'Int32', '07000000']]),
                                        (paths[0], ['NODATA'], [['unit', 'String', '56']])], newlist=False, big=big)
                    PON = lambda: G.seg([("/'g'", ['NODATA'], [['t', 'TimeStamp', '00000000000000800100000000000000']])], big=big)
                    INH2 = lambda c=chunks: G.seg([(paths[0], ['NODATA'])] + ([(paths[1], ['SAME'])] if len(elems) > 1 else []),
                                                  newlist=False, chunks=c, interleaved=il, big=big)
                    shapes = {'S': [S()], 'S,S2': [S(), S2()], 'S,nometa': [S(), NM()], 'S,inh': [S(), INH()], 'S,inh2': [S(), INH2()],
                              'S,nometa,S2': [S(), NM(), S2(1)], 'S,props-only': [S(), PO()], 'S,props-only-newlist': [S(), PON()]}
                    for sname, h in shapes.items():
                        if tier == 'quick' and sname in ('S,nometa,S2',) and chunks > 1:
                            continue
                        out.append(('%s/%s/%s/x%d/%s' % (ename, layout, sname, chunks, 'BE' if big else 'LE'), h))
        # DAQmx: one and two raw buffers
        for nbuf in (1, 2):
            if big and tier == 'quick' and nbuf == 1:
                continue
            widths = [6] if nbuf == 1 else [6, 4]
            sc_a = [(3, 0, 0, 0, 0), (2, 0, 4, 0, 1)]
            sc_b = [(5, 0, 1, 0, 0)] if nbuf == 1 else [(3, 1, 1, 0, 0)]
            for chunks in chunk_opts:
                for na, nb in ((2, 2), (3, 2)) if nbuf == 2 else ((2, 2),):
                    d = lambda c=chunks: G.seg([(A, daqmx_enc(na, sc_a, widths)), (B, daqmx_enc(nb, sc_b, widths))],
                                               chunks=c, big=big)
                    NM = lambda c=chunks: G.seg([], meta=False, chunks=c, big=big)
                    out.append(('daqmx%d/%d,%d/S/x%d/%s' % (nbuf, na, nb, chunks, 'BE' if big else 'LE'), [d()]))
                    out.append(('daqmx%d/%d,%d/S,nometa/x%d/%s' % (nbuf, na, nb, chunks, 'BE' if big else 'LE'), [d(), NM()]))
    return out


# ---------------------------------------------------------------------------------------
# F3: cross-section of readable files (C03 / C09 / C10 / C15)
# ---------------------------------------------------------------------------------------

R8 = ['Int8', 'Int16', 'SingleFloat', 'Int64', 'TimeStamp', 'ComplexDoubleFloat', 'String', 'Boolean']


def _full(t, n):
    return ['FULL', 'String', n, 2 * n + 1] if t == 'String' else ['FULL', t, n]


def f3_files(tier, daqmx=True, scaled=True):
    """-> list of (name, history)"""
    out = []
    types = R8 if tier == 'thorough' else ['Int16', 'TimeStamp', 'String', 'ComplexDoubleFloat', 'Boolean']
    # (1) type square, lengths {0,2}, chunks {1,2}, both layouts
    for ta in types:
        for tb in types:
            for la, lb in ((2, 2), (0, 2), (2, 0)) if tier == 'thorough' else ((2, 2), (0, 2)):
                for chunks in (1, 2):
                    out.append(('sq/%s,%s/%d,%d/x%d/contig' % (ta, tb, la, lb, chunks),
                                [G.seg([(A, _full(ta, la)), (B, _full(tb, lb))], chunks=chunks)]))
                    if la == lb and ta != 'String' and tb != 'String':
                        out.append(('sq/%s,%s/%d/x%d/il' % (ta, tb, la, chunks),
                                    [G.seg([(A, _full(ta, la)), (B, _full(tb, lb))], chunks=chunks, interleaved=True)]))
    # (2) inheritance histories of depth 2 over one channel plus a companion
    encs = [['FULL', 'Int32', 2], ['FULL', 'Int32', 1], ['SAME'], ['NODATA'], None]
    for e1 in encs[:2]:
        for newlist in (True, False):
            for e2 in encs:
                for tail in (None, 'nometa'):
                    objs2 = [(B, ['FULL', 'Int16', 3])] + ([(A, e2)] if e2 else [])
                    h = [G.seg([(A, e1), (B, ['FULL', 'Int16', 3])], chunks=2), G.seg(objs2, newlist=newlist, chunks=1)]
                    if tail:
                        h.append(G.seg([], meta=False, chunks=2))
                    out.append(('inh/%s/%s/%s/%s' % (e1[2], 'new' if newlist else 'app', e2[0] if e2 else 'unlisted', tail), h))
    # (3) DAQmx
    if daqmx:
        for nb in (1, 2):
            widths = [8] if nb == 1 else [8, 4]
            for chunks in (1, 2):
                a = daqmx_enc(2, [(5, 0, 2, 0, 0), (2, 0, 6, 0, 1)], widths)
                b = daqmx_enc(2 if nb == 1 else 3, [(3, nb - 1, 0, 0, 0)], widths)
                out.append(('daqmx/%d/x%d' % (nb, chunks),
                            [G.seg([(A, a, DAQMX_SCALE_PROPS), (B, b, [_uprop('NI_Number_Of_Scales', 1)])], chunks=chunks),
                             G.seg([], meta=False, chunks=1)]))
        # channels whose scalers do not start at id 0 (a: ids 1 and 2 with a Linear scale 3 over scale 2; b: id 1 only)
        for chunks in (1, 3):
            a = daqmx_enc(2, [(5, 0, 2, 0, 1), (2, 0, 6, 0, 2)], [8])
            b = daqmx_enc(2, [(3, 0, 0, 0, 1)], [8])
            pa = [_uprop('NI_Number_Of_Scales', 4)] + linear_props(3, 2.0, 1.0, 2)
            out.append(('daqmx/ids-from-1/x%d' % chunks,
                        [G.seg([(A, a, pa), (B, b, [_uprop('NI_Number_Of_Scales', 2)])], chunks=chunks), G.seg([], meta=False, chunks=2)]))
    # (4) scaled
    if scaled:
        lin = [_uprop('NI_Number_Of_Scales', 1), _sprop('NI_Scale[0]_Scale_Type', 'Linear'),
               _dprop('NI_Scale[0]_Linear_Slope', 0.5), _dprop('NI_Scale[0]_Linear_Y_Intercept', -3.0)]
        for t in ('Int16', 'Uint32', 'DoubleFloat', 'Int64'):
            out.append(('scaled/linear/%s' % t, [G.seg([(A, _full(t, 3), lin), (B, _full('Int8', 1))], chunks=2)]))
        two = [_uprop('NI_Number_Of_Scales', 2), _sprop('NI_Scale[0]_Scale_Type', 'Polynomial'),
               _uprop('NI_Scale[0]_Polynomial_Coefficients_Size', 3), _dprop('NI_Scale[0]_Polynomial_Coefficients[0]', 1.0),
               _dprop('NI_Scale[0]_Polynomial_Coefficients[1]', 2.0), _dprop('NI_Scale[0]_Polynomial_Coefficients[2]', 0.5),
               _uprop('NI_Scale[0]_Polynomial_Input_Source', 0xFFFFFFFF),
               _sprop('NI_Scale[1]_Scale_Type', 'Linear'), _dprop('NI_Scale[1]_Linear_Slope', 2.0),
               _dprop('NI_Scale[1]_Linear_Y_Intercept', 1.0), _uprop('NI_Scale[1]_Linear_Input_Source', 0)]
        pre = 'NI_Scale[0]_Strain_'
        strain = [_uprop('NI_Number_Of_Scales', 1), _sprop('NI_Scale[0]_Scale_Type', 'Strain'), _uprop(pre + 'Configuration', 10183),
                  _dprop(pre + 'Poisson_Ratio', 0.3), _dprop(pre + 'Gage_Resistance', 350.0), _dprop(pre + 'Lead_Wire_Resistance', 0.0),
                  _dprop(pre + 'Initial_Bridge_Voltage', 0.0), _dprop(pre + 'Gage_Factor', 2.1),
                  _dprop(pre + 'Bridge_Shunt_Calibration_Gain_Adjustment', 1.0), _dprop(pre + 'Voltage_Excitation', 2.5),
                  _uprop(pre + 'Input_Source', 0xFFFFFFFF)]
        for t in ('DoubleFloat', 'SingleFloat', 'Int16'):
            out.append(('scaled/strain/%s' % t, [G.seg([(A, _full(t, 3), strain), (B, _full('Int8', 1))], chunks=2)]))
            out.append(('scaled/strain-quarter/%s' % t, [G.seg([(A, _full(t, 3), [p if p[0] != pre + 'Configuration' else _uprop(pre + 'Configuration', 10271)
                                                                                for p in strain]), (B, _full('Int8', 1))], chunks=2)]))
        out.append(('scaled/two-deep', [G.seg([(A, _full('Int16', 3), two), (B, _full('Int8', 1))], chunks=2)]))
    # (5) specials
    out.append(('special/no-data-type', [G.seg([(A, ['NODATA']), (B, _full('Int16', 2))])]))
    out.append(('special/zero-length', [G.seg([(A, _full('Int32', 0)), (B, _full('Int16', 2))])]))
    out.append(('special/zero-length-string', [G.seg([(A, ['FULL', 'String', 0, 0]), (B, _full('Int16', 2))])]))
    out.append(('special/zero-length-ts', [G.seg([(A, _full('TimeStamp', 0)), (B, _full('Int16', 2))])]))
    out.append(('special/group-without-channels', [G.seg([("/'empty'", ['NODATA']), (A, _full('Int32', 2))])]))
    out.append(('special/no-group-object', [G.seg([(C, _full('Int32', 2)), (A, _full('Int16', 1))])]))
    out.append(('special/ts-be', [G.seg([(A, _full('TimeStamp', 2)), (B, _full('Int16', 2))], chunks=2, big=True)]))
    out.append(('special/ts-mixed', [G.seg([(A, _full('TimeStamp', 2))], chunks=1, big=True), G.seg([(A, _full('TimeStamp', 3))])]))
    out.append(('special/strings', [G.seg([(A, ['FULL', 'String', 3, 0])]), G.seg([(A, ['FULL', 'String', 2, 9])], chunks=2)]))
    out.append(('special/padding', [G.seg([(A, _full('Int32', 2)), (B, _full('Int16', 1))], pad=3, chunks=2),
                                    G.seg([(A, ['SAME'])], newlist=False, pad=5)]))
    out.append(('special/padding-varying', [G.seg([(A, _full('Int32', 2)), (B, _full('Int16', 1))], pad=7, chunks=2),
                                            G.seg([], meta=False, chunks=1), G.seg([(A, ['SAME'])], newlist=False, pad=0),
                                            G.seg([(B, ['SAME'])], newlist=False, pad=2), G.seg([(A, _full('Int32', 1))], pad=0)]))
    out.append(('special/props-only-last', [G.seg([(A, _full('Int32', 2)), (B, _full('Int16', 1))], chunks=2),
                                            G.seg([('/', ['NODATA'], [_sprop('closing', 'done')]), ("/'g'", ['NODATA'], [_uprop('n', 7)]),
                                                   ("/'late'/'x'", ['NODATA'], [_sprop('unit', 'V')])])]))
    out.append(('special/props-only-middle', [G.seg([(A, _full('Int32', 2))]), G.seg([(A, ['NODATA'], [_sprop('k', 'v')])], newlist=False),
                                              G.seg([(A, ['SAME'])], newlist=False)]))
    out.append(('special/short-final-contiguous', [G.seg([(B, _full('Int16', 3)), (A, _full('Int32', 2))], chunks=1),
                                                   G.seg([(B, _full('Int16', 3)), (A, _full('Int32', 2))], chunks=3, short=6)]))
    out.append(('special/short-final-contiguous-3', [G.seg([(B, _full('Int16', 3)), (A, _full('Int32', 2))], chunks=3, short=3)]))
    out.append(('special/short-final-contiguous-9', [G.seg([(B, _full('Int8', 5)), (C, _full('Int16', 2)), (A, _full('Int32', 2))], chunks=2, short=9)]))
    out.append(('special/short-final-interleaved', [G.seg([(B, _full('Int16', 2)), (A, _full('Int32', 2))], chunks=3, interleaved=True, short=5)]))
    # channels spanning the same segments with the same TOTAL length but different per-segment splits (1+3, 3+1, 2+2; 2+0+2 next to
    # 1+2+1): per-channel lookup tables shared or memoised under a key coarser than the split itself send positional reads astray
    out.append(('special/equal-totals', [G.seg([(A, _full('Int32', 1)), (B, _full('Int32', 3)), (C, _full('Int32', 2))]),
                                         G.seg([(A, _full('Int32', 3)), (B, _full('Int32', 1)), (C, _full('Int32', 2))])]))
    out.append(('special/equal-totals-3', [G.seg([(A, _full('Int16', 2)), (B, _full('Int32', 1))], chunks=1),
                                           G.seg([(B, _full('Int32', 1))], chunks=1),
                                           G.seg([(A, _full('Int16', 1)), (B, _full('Int32', 1))], chunks=2)]))
    pa, pb = [['gain', 'Int32', '01000000'], ['unit', 'String', '56']], [['gain', 'Int32', '02000000']]
    sa = lambda: G.seg([('/', ['NODATA'], pa), ("/'g'", ['NODATA'], pa), (A, _full('Int32', 2), pa), (B, _full('Int16', 1))])
    sb = lambda: G.seg([('/', ['NODATA'], pb), ("/'g'", ['NODATA'], pb), (A, _full('Int32', 3), pb), (B, _full('Int16', 1))])
    out.append(('special/aba-props', [sa(), sb(), sa()]))
    out.append(('special/abab-props', [sa(), sb(), sa(), sb(), G.seg([], meta=False)]))
    # segments that are complete by their own offsets but whose raw data stops inside the last chunk, NOT in last position
    for kind_ in ('shortmid', 'shortmid-il', 'shortmid-daqmx', 'shortmid-slow'):
        if kind_ == 'shortmid-daqmx' and not daqmx:
            continue
        out.append(('special/%s' % kind_, f4_build(kind_, ((3, 2), (2, 2)))))
        out.append(('special/%s-3' % kind_, f4_build(kind_, ((2, 3), 'nod', (2, 1)))))
    out.append(('special/many-segments', [G.seg([(A, _full('Int32', 1)), (B, _full('Int16', 2))])] +
                [G.seg([], meta=False, chunks=1 + (i % 2)) for i in range(7)]))
    return out
