"""File families shared by several checks (all built with the independent encoder)."""
import itertools

from . import tdmsgen as G

A, B, C = "/'g'/'a'", "/'g'/'b'", "/'h'/'c'"

# ---------------------------------------------------------------------------------------
# F4: windows family (C04 / C19 / C03 cross-section)
# ---------------------------------------------------------------------------------------

F4_OPTIONS = ['abs', 'nod', (1, 1), (2, 1), (1, 2), (2, 2), (3, 2), (2, 3)]
F4_OPTIONS_SMALL = ['abs', 'nod', (2, 1), (1, 2), (2, 3)]
F4_KINDS = ['int', 'il', 'str', 'strb', 'ts', 'daqmx']


def daqmx_enc(n, scalers, widths, kind='fc', dtype='DaqMxRawData'):
    return ['DAQMX', {'kind': kind, 'dtype': dtype, 'n': n, 'scalers': [list(s) for s in scalers],
                      'widths': list(widths)}]


def f4_segment(kind, opt):
    """One segment of an F4 file: target channel A per `opt`, companion B always present."""
    present = isinstance(opt, tuple)
    n, chunks = opt if present else (1, 1)
    if kind == 'int':
        objs = [(B, ['FULL', 'Int16', n + 1])]
        if present:
            objs.append((A, ['FULL', 'Int32', n]))
        elif opt == 'nod':
            objs.append((A, ['NODATA']))
        return G.seg(objs, chunks=chunks)
    if kind == 'il':
        objs = [(B, ['FULL', 'Int16', n])]
        if present:
            objs.append((A, ['FULL', 'Int32', n]))
        elif opt == 'nod':
            objs.append((A, ['NODATA']))
        return G.seg(objs, chunks=chunks, interleaved=True)
    if kind == 'str':
        objs = []
        if present:
            objs.append((A, ['FULL', 'String', n, 2 * n + 1]))
        elif opt == 'nod':
            objs.append((A, ['NODATA']))
        objs.append((B, ['FULL', 'Int16', n + 1]))
        return G.seg(objs, chunks=chunks)
    if kind == 'strb':
        objs = [(B, ['FULL', 'String', n + 1, 5])]
        if present:
            objs.append((A, ['FULL', 'Int32', n]))
        elif opt == 'nod':
            objs.append((A, ['NODATA']))
        return G.seg(objs, chunks=chunks)
    if kind == 'ts':
        objs = [(B, ['FULL', 'Int8', n + 1])]
        if present:
            objs.append((A, ['FULL', 'TimeStamp', n]))
        elif opt == 'nod':
            objs.append((A, ['NODATA']))
        return G.seg(objs, chunks=chunks)
    if kind == 'daqmx':
        widths = [8]
        objs = [(B, daqmx_enc(n, [(3, 0, 0, 0, 0)], widths))]
        if present:
            objs.append((A, daqmx_enc(n, [(5, 0, 2, 0, 0), (2, 0, 6, 0, 1)], widths)))
        elif opt == 'nod':
            objs.append((A, ['NODATA']))
        return G.seg(objs, chunks=chunks)
    raise ValueError(kind)


def f4_histories(kind, depth, options=None):
    """All option tuples of exactly `depth` segments in which A has data at least once."""
    options = F4_OPTIONS if options is None else options
    for opts in itertools.product(options, repeat=depth):
        if not any(isinstance(o, tuple) for o in opts):
            continue
        yield opts


def f4_build(kind, opts, seed=0):
    hist = [f4_segment(kind, o) for o in opts]
    if kind == 'daqmx':
        for s in hist:
            done = False
            for o in s['objects']:
                if o['path'] == A and o['enc'][0] == 'DAQMX':
                    o['props'] = DAQMX_SCALE_PROPS
                    done = True
            if done:
                break
    return hist


def _sprop(name, value):
    return [name, 'String', value.encode('utf-8').hex()]


def _dprop(name, value):
    import struct
    return [name, 'DoubleFloat', struct.pack('<d', value).hex()]


def _uprop(name, value):
    import struct
    return [name, 'Uint32', struct.pack('<I', value).hex()]


# scaler 0 and 1 come from the DAQmx raw data; scale 2 = 2*scaler1 + 1 is the channel's output
DAQMX_SCALE_PROPS = [
    _uprop('NI_Number_Of_Scales', 3),
    _sprop('NI_Scale[2]_Scale_Type', 'Linear'),
    _dprop('NI_Scale[2]_Linear_Slope', 2.0),
    _dprop('NI_Scale[2]_Linear_Y_Intercept', 1.0),
    _uprop('NI_Scale[2]_Linear_Input_Source', 1),
]


def f4_has_gap(opts):
    """A has data, then a segment without A's data, then data again."""
    seen = False
    gap = False
    for o in opts:
        if isinstance(o, tuple):
            if seen and gap:
                return True
            seen = True
        elif seen:
            gap = True
    return False
