"""./check runner: executes one property module, applies known findings, writes evidence.

exit 0  property held on everything explored (KNOWN-FINDING lines allowed)
exit 1  at least one VIOLATION line was printed
exit 2  harness error (import failure, vacuous run, non-reproducible candidate)
"""
import hashlib
import importlib
import json
import multiprocessing as mp
import os
import subprocess
import sys
import time
import traceback

ROOT = os.path.dirname(os.path.dirname(os.path.abspath(__file__)))
# VERIF_OUT_DIR redirects evidence and replays (used when a check is pointed at a scratch tree holding a seeded change)
_OUT = os.environ.get('VERIF_OUT_DIR') or ROOT
EVID = os.path.join(_OUT, 'evidence')
REPLAYS = os.path.join(_OUT, 'replays')
KNOWN = os.path.join(ROOT, 'known_findings.json')


class Ctx(object):
    def __init__(self, pid, tier, seed, workers):
        self.property_id = pid
        self.tier = tier
        self.seed = seed
        self.workers = workers
        self.t0 = time.time()
        b = os.environ.get('VERIF_BUDGET_S')
        self.budget = float(b) if b else None
        self.caps = []
        self._pool = None
        self.calls = []      # (function, items) of every map call: the work log from which a worker's history is rebuilt
        self.executed = {}   # worker pid -> [(sequence number in that worker, call index, item index)]

    def expired(self):
        return self.budget is not None and (time.time() - self.t0) > self.budget

    def cap(self, what):
        if what not in self.caps:
            self.caps.append(what)

    @property
    def pool(self):
        if self._pool is None:
            from . import harness
            ctx = mp.get_context('fork')
            self._pool = ctx.Pool(self.workers, initializer=harness.arm_worker)
        return self._pool

    def _run(self, fn, items, chunksize, ordered):
        items = list(items)
        if not items:
            return []
        ci = len(self.calls)
        self.calls.append((fn, items))
        safe = _Safe(fn)
        work = list(enumerate(items))
        if self.workers <= 1:
            from . import harness
            harness.arm_worker()
            raw = [safe(w) for w in work]
        elif ordered:
            raw = self.pool.map(safe, work, chunksize)
        else:
            raw = self.pool.imap_unordered(safe, work, chunksize)
        out = []
        for r in raw:
            if r[0] != 'ok':
                raise WorkerError(r[1])
            _st, res, wpid, seq, idx = r
            self.executed.setdefault(wpid, []).append((seq, ci, idx))
            if isinstance(res, dict):
                for v in res.get('violations') or []:
                    if isinstance(v, dict):
                        v['_origin'] = (wpid, seq)
            out.append(res)
        return out

    def map(self, fn, items, chunksize=1):
        """Unordered parallel map over picklable items."""
        return self._run(fn, items, chunksize, False)

    def map_ordered(self, fn, items, chunksize=1):
        return self._run(fn, items, chunksize, True)

    def history_of(self, origin):
        """the work items the worker process of a violation had executed up to and including the violating one"""
        wpid, seq = origin
        rows = sorted(r for r in self.executed.get(wpid, []) if r[0] <= seq)
        return [(self.calls[ci][0], self.calls[ci][1][idx]) for _s, ci, idx in rows]

    def close(self):
        if self._pool is not None:
            self._pool.terminate()
            self._pool.join()
            self._pool = None


class _Safe(object):
    """Picklable wrapper: a worker exception comes back as a value instead of wedging the pool."""

    def __init__(self, fn):
        self.fn = fn

    def __call__(self, work):
        idx, item = work
        _SEQ[0] += 1
        try:
            return ('ok', self.fn(item), os.getpid(), _SEQ[0], idx)
        except BaseException as e:  # noqa
            return ('err', '%s: %s\n%s' % (type(e).__name__, e, traceback.format_exc()[-1500:]))


_SEQ = [0]   # per process: how many work items this process has executed


class WorkerError(Exception):
    pass




def merge(results):
    """Merge per-shard result dicts: counters are added, lists are concatenated (capped)."""
    out = {'counters': {}, 'violations': [], 'samples': [], 'outcomes': {}, 'distinct': set()}
    for r in results:
        for k, v in r.get('counters', {}).items():
            out['counters'][k] = out['counters'].get(k, 0) + v
        for k, v in r.get('outcomes', {}).items():
            out['outcomes'][k] = out['outcomes'].get(k, 0) + v
        out['violations'].extend(r.get('violations', []))
        if len(out['samples']) < 6:
            out['samples'].extend(r.get('samples', [])[:2])
        out['distinct'].update(r.get('distinct', ()))
    return out


def sig_key(sig):
    return json.dumps(sig, sort_keys=True, default=str)


def load_known():
    try:
        with open(KNOWN) as f:
            return json.load(f).get('findings', [])
    except FileNotFoundError:
        return []


def sig_matches(stored, sig):
    for k, v in stored.items():
        if k not in sig:
            return False
        if isinstance(v, list):
            if sig[k] not in v and sig[k] != v:
                return False
        elif sig[k] != v:
            return False
    return True


def case_size(v):
    return len(json.dumps(v.get('case'), default=str))


def write_replay(pid, v, history=None):
    d = os.path.join(REPLAYS, pid)
    os.makedirs(d, exist_ok=True)
    art = {'property': pid, 'schema': 1, 'case': v['case'], 'expected': v.get('expected'),
           'observed': v.get('observed'), 'signature': v.get('signature')}
    if history is not None:
        # the deviation depends on what the process did before: the artefact carries the work items to execute first
        import base64
        import pickle
        art['history_note'] = ('replay executes these %d work items in order in one fresh process; the last one must show a '
                               'violation with the same signature' % len(history))
        art['history_readable'] = ['%s(%s)' % (fn.__name__, repr(item)[:200]) for fn, item in history]
        art['history_pickle'] = base64.b64encode(pickle.dumps([(fn.__module__, fn.__name__, item) for fn, item in history])).decode()
    body = json.dumps(art, indent=1, sort_keys=True, default=str)
    h = hashlib.sha1(body.encode()).hexdigest()[:12]
    path = os.path.join(d, h + '.json')
    with open(path, 'w') as f:
        f.write(body)
    return path


def confirm(pid, path):
    """Re-execute the replay twice in fresh interpreters; both must deviate."""
    outs = []
    for _ in range(2):
        p = subprocess.run([sys.executable, '-m', 'mc.run', pid, '--replay', path], cwd=ROOT,
                           capture_output=True, text=True, timeout=300)
        outs.append((p.returncode, [l for l in p.stdout.splitlines() if l.startswith('observed:')]))
    # the case must deviate in both fresh runs; the deviating value itself may differ when the code under test returns
    # uninitialised memory (that is still a reproduced violation)
    return outs[0][0] == 1 and outs[1][0] == 1, outs


def validate_evidence(ev):
    cov = ev['coverage']
    assert ev['tier'] in ('quick', 'thorough') and isinstance(ev['seed'], int)
    assert isinstance(cov.get('samples'), list) and cov['samples'], 'samples'
    if ev['level'] == 'model_checking':
        assert cov['states'] >= 1 and cov['transitions'] >= 1 and cov['traces_validated_against_impl'] >= 0
    assert cov['evaluations'] >= 1 and cov['distinct_nontrivial'] >= 2 and isinstance(cov['rule'], str)


def main(argv):
    # one scratch root per run: worker processes create their temporary files below it, and it is removed when the run ends
    # (workers are terminated without running their exit handlers, so they cannot be trusted to clean up themselves)
    import shutil
    import tempfile
    root = tempfile.mkdtemp(prefix='verif_run_', dir='/dev/shm' if os.path.isdir('/dev/shm') else None)
    os.environ['VERIF_SCRATCH_ROOT'] = root
    try:
        return _main(argv)
    finally:
        shutil.rmtree(root, ignore_errors=True)


def _main(argv):
    if len(argv) < 2:
        print('usage: check <ID> [quick|thorough] [--replay path]')
        return 2
    pid = argv[1].upper()
    tier = os.environ.get('VERIF_TIER') or 'quick'   # used only when the command line does not name a tier
    replay = None
    rest = argv[2:]
    i = 0
    while i < len(rest):
        if rest[i] == '--replay':
            replay = rest[i + 1]
            i += 2
            continue
        if rest[i] in ('quick', 'thorough'):
            tier = rest[i]
        i += 1
    if tier not in ('quick', 'thorough'):
        tier = 'quick'
    seed = int(os.environ.get('VERIF_SEED', '0') or 0)
    workers = int(os.environ.get('VERIF_WORKERS', '0') or 0) or min(16, os.cpu_count() or 1)
    try:
        mod = importlib.import_module('mc.props.' + pid.lower())
    except Exception:
        traceback.print_exc()
        print('harness error: cannot import check for %s' % pid)
        return 2

    if replay:
        with open(replay) as f:
            art = json.load(f)
        from . import harness
        harness.arm_worker()
        if art.get('history_pickle'):
            import base64
            import pickle
            want = sig_key(art.get('signature'))
            last = None
            for mname, fname, item in pickle.loads(base64.b64decode(art['history_pickle'])):
                last = getattr(importlib.import_module(mname), fname)(item)
            hits = [v for v in (last or {}).get('violations', []) if sig_key(v.get('signature')) == want]
            print('expected: %s' % (art.get('expected'),))
            print('observed: %s' % (hits[0].get('observed') if hits else 'no violation with this signature after the recorded history',))
            print('deviates: %s' % bool(hits))
            return 1 if hits else 0
        deviates, exp, obs = mod.replay(art['case'])
        print('expected: %s' % (exp,))
        print('observed: %s' % (obs,))
        print('deviates: %s' % deviates)
        return 1 if deviates else 0

    ctx = Ctx(pid, tier, seed, workers)
    try:
        coverage, violations = mod.run(ctx)
    except BaseException:  # noqa - includes the watchdog: a hang outside a guarded call is a harness error, not a verdict
        traceback.print_exc()
        print('harness error in %s' % pid)
        ctx.close()
        return 2
    finally:
        pass
    ctx.close()
    wall = time.time() - ctx.t0

    # --- triage violations ------------------------------------------------------------
    skipped_after_hangs = [v for v in violations if 'hung repeatedly in this worker' in str(v.get('observed'))]
    violations = [v for v in violations if 'hung repeatedly in this worker' not in str(v.get('observed'))]
    if skipped_after_hangs:
        ctx.cap('%d cases were not executed because the code under test hung repeatedly (per-execution watchdog)' % len(skipped_after_hangs))
    known = load_known()
    by_sig = {}
    for v in violations:
        k = sig_key(v.get('signature'))
        if k not in by_sig or case_size(v) < case_size(by_sig[k][0]):
            by_sig[k] = (v, by_sig.get(k, (None, 0))[1] + 1)
        else:
            by_sig[k] = (by_sig[k][0], by_sig[k][1] + 1)
    kf_hits = {}
    fresh = []
    for k, (v, n) in sorted(by_sig.items()):
        hit = None
        for ent in known:
            if ent.get('property') == pid and ent.get('status', 'open') == 'open' and \
                    sig_matches(ent.get('signature', {}), v.get('signature') or {}):
                hit = ent
                break
        if hit is not None:
            kf_hits[hit['what']] = kf_hits.get(hit['what'], 0) + n
        else:
            fresh.append((v, n))
    for what, n in sorted(kf_hits.items()):
        print('KNOWN-FINDING: property=%s %s (%d enumerated cases)' % (pid, what, n))
    status = 0
    reported = 0
    unconfirmed = 0
    for v, n in sorted(fresh, key=lambda x: case_size(x[0])):
        if reported >= 8:
            break
        path = write_replay(pid, v)
        ok, outs = confirm(pid, path)
        if not ok and v.get('_origin') is not None:
            # not reproducible alone: replay it after what its worker process had executed before (shortest sufficient suffix)
            hist = ctx.history_of(tuple(v['_origin']))
            k = 2
            while hist and not ok:
                sub = hist[-k:]
                path2 = write_replay(pid, v, history=sub)
                ok, outs2 = confirm(pid, path2)
                if ok:
                    path, outs = path2, outs2
                    print('note: reproduces only in the context of its work item and %d earlier ones of the same process (recorded in the replay)' % (len(sub) - 1))
                else:
                    os.remove(path2)
                if k >= len(hist):
                    break
                k = min(len(hist), k * 4)
        if not ok:
            # a deviation seen in the exploring process that a fresh interpreter does not show depends on process history
            # (e.g. a process-wide cache); it is reported, and decides the exit status only if nothing was confirmed
            print('unconfirmed candidate (did not reproduce in two fresh runs; history-dependent?): %s %r' % (path, outs))
            unconfirmed += 1
            continue
        print('VIOLATION property=%s replay=%s' % (pid, path))
        print('  signature=%s cases=%d' % (sig_key(v.get('signature')), n))
        print('  expected: %s' % (str(v.get('expected'))[:300],))
        print('  observed: %s' % (str(v.get('observed'))[:300],))
        reported += 1
        status = 1
    if unconfirmed and not reported:
        print('harness error: %d candidate violations, none reproducible in a fresh interpreter' % unconfirmed)
        status = 2

    # --- evidence ---------------------------------------------------------------------
    coverage = dict(coverage)
    coverage['caps_hit'] = list(ctx.caps) + list(coverage.get('caps_hit', []))
    if coverage['caps_hit']:
        coverage['exhaustive'] = False
    coverage['known_finding_hits'] = kf_hits
    coverage['violating_cases'] = len(violations)
    ev = {'property_id': pid, 'tier': tier, 'seed': seed, 'level': mod.LEVEL, 'coverage': coverage,
          'assumptions': getattr(mod, 'ASSUMPTIONS', []), 'wall_s': round(wall, 2),
          'violations': sum(n for _, n in fresh)}
    try:
        validate_evidence(ev)
    except Exception as e:  # vacuous or malformed run
        print('harness error: evidence invalid / vacuous run: %r' % (e,))
        status = 2
    vac = coverage.get('vacuity_failures')
    if vac:
        # a vacuity guard protects against a silent pass; next to confirmed violations it is reported but does not replace them
        print('%s: vacuity guards failed: %s' % ('harness error' if status == 0 else 'note', vac))
        if status == 0:
            status = 2
    os.makedirs(EVID, exist_ok=True)
    with open(os.path.join(EVID, pid + '.json'), 'w') as f:
        json.dump(ev, f, indent=1, sort_keys=True, default=str)
    print('%s %s seed=%d: evaluations=%s distinct_nontrivial=%s violations=%d known=%d exhaustive=%s wall=%.1fs'
          % (pid, tier, seed, coverage.get('evaluations'), coverage.get('distinct_nontrivial'),
             ev['violations'], sum(kf_hits.values()), coverage.get('exhaustive'), wall))
    return status


if __name__ == '__main__':
    sys.exit(main(sys.argv))
