"""Environment wrappers handed to nptdms in place of a file (all io.BytesIO subclasses)."""
import io
import os


class RecordingStream(io.BytesIO):
    """Logs (position, bytes returned) of every read()/readinto()."""

    def __init__(self, data):
        io.BytesIO.__init__(self, data)
        self.log = []

    def read(self, n=-1):
        pos = self.tell()
        out = io.BytesIO.read(self, n)
        if out:
            self.log.append((pos, len(out)))
        return out

    def readinto(self, b):
        pos = self.tell()
        n = io.BytesIO.readinto(self, b)
        if n:
            self.log.append((pos, n))
        return n

    def reset(self):
        self.log = []


class ShortReadStream(io.BytesIO):
    """readinto() number k (0-based, counted over the stream's life) returns at most `m` bytes
    for every (k, m) in plan; read(n) is never shortened (buffered binary streams guarantee it)."""

    def __init__(self, data, plan):
        io.BytesIO.__init__(self, data)
        self.plan = dict(plan)
        self.count = 0
        self.sizes = []

    def readinto(self, b):
        k = self.count
        want = len(b)
        if want == 0:
            return io.BytesIO.readinto(self, b)
        self.count += 1
        if k in self.plan and want > 1:
            m = max(1, min(self.plan[k], want - 1))
            n = io.BytesIO.readinto(self, memoryview(b)[:m])
        else:
            n = io.BytesIO.readinto(self, b)
        self.sizes.append((want, n))
        return n


def fd_snapshot():
    """{fd: resolved target} for this process."""
    out = {}
    for name in os.listdir('/proc/self/fd'):
        try:
            out[int(name)] = os.readlink('/proc/self/fd/' + name)
        except OSError:
            pass
    return out
