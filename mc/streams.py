"""Environment wrappers handed to nptdms in place of a file (all io.BytesIO subclasses)."""
import io
import os


class RecordingStream(io.BytesIO):
    """Logs (position, bytes returned) of every read()/readinto()."""

    def __init__(self, data):
        io.BytesIO.__init__(self, data)
        self.log = []

    def read(self, n=-1):
        pos = self.tell()
        out = io.BytesIO.read(self, n)
        if out:
            self.log.append((pos, len(out)))
        return out

    def readinto(self, b):
        pos = self.tell()
        n = io.BytesIO.readinto(self, b)
        if n:
            self.log.append((pos, n))
        return n

    def reset(self):
        self.log = []


class ShortReadStream(io.BytesIO):
    """readinto() number k (0-based, counted over the stream's life) returns at most `m` bytes
    for every (k, m) in plan; read(n) is never shortened (buffered binary streams guarantee it)."""

    def __init__(self, data, plan):
        io.BytesIO.__init__(self, data)
        self.plan = dict(plan)
        self.count = 0
        self.sizes = []

    def readinto(self, b):
        k = self.count
        want = len(b)
        if want == 0:
            return io.BytesIO.readinto(self, b)
        self.count += 1
        if k in self.plan and want > 1:
            m = max(1, min(self.plan[k], want - 1))
            n = io.BytesIO.readinto(self, memoryview(b)[:m])
        else:
            n = io.BytesIO.readinto(self, b)
        self.sizes.append((want, n))
        return n


def fd_snapshot():
    """{fd: resolved target} for this process."""
    out = {}
    for name in os.listdir('/proc/self/fd'):
        try:
            out[int(name)] = os.readlink('/proc/self/fd/' + name)
        except OSError:
            pass
    return out


class RawBytesStream(io.RawIOBase):
    """An unbuffered, seekable raw stream over bytes (what open(path, 'rb', buffering=0) or a socket-like source hands out):
    the caller owns it, it must still be open after npTDMS is done with it."""

    def __init__(self, data):
        io.RawIOBase.__init__(self)
        self._data = bytes(data)
        self._pos = 0

    def readable(self):
        return True

    def seekable(self):
        return True

    def readinto(self, b):
        n = min(len(b), max(0, len(self._data) - self._pos))
        b[:n] = self._data[self._pos:self._pos + n]
        self._pos += n
        return n

    def seek(self, offset, whence=0):
        if whence == 0:
            self._pos = offset
        elif whence == 1:
            self._pos += offset
        else:
            self._pos = len(self._data) + offset
        return self._pos

    def tell(self):
        return self._pos
