"""TdmsWriter programs: a finite alphabet of write_segment calls, their execution on the real
writer, and the reference model of what such a program means (shared by C07 and C08)."""
import datetime
import io
import os
import shutil
import struct
import tempfile

import numpy as np

from . import harness as H
from . import tdmsgen as G

# ---------------------------------------------------------------------------------------
# channel data kinds: name -> (builder(n, k) -> python/numpy input, expected TDMS type)
# ---------------------------------------------------------------------------------------

ND = {'i8': 'Int8', 'i16': 'Int16', 'i32': 'Int32', 'i64': 'Int64', 'u8': 'Uint8', 'u16': 'Uint16',
      'u32': 'Uint32', 'u64': 'Uint64', 'f32': 'SingleFloat', 'f64': 'DoubleFloat', 'bool': 'Boolean',
      'c64': 'ComplexSingleFloat', 'c128': 'ComplexDoubleFloat'}
LIST_INT = {'list_i8': (-128, [5, -128, 127]), 'list_u8': (0, [200, 128, 255]),
            'list_i16': (0, [-129, 300, -32768, 32767]), 'list_u16': (0, [40000, 32768, 65535]),
            'list_i32': (0, [-32769, 70000, -2 ** 31, 2 ** 31 - 1]), 'list_u32': (0, [2 ** 31, 3000000000, 2 ** 32 - 1]),
            'list_i64': (0, [-2 ** 31 - 1, 2 ** 32, -2 ** 63, 2 ** 63 - 1]), 'list_u64': (0, [2 ** 63, 2 ** 64 - 1, 2 ** 63 + 5]),
            # a negative value next to one from the upper half of the unsigned range of the same width: no type of that width
            # holds both (the writer may refuse the list or widen the type, it must not wrap a value)
            'list_mix8': (0, [200, -1, 100]), 'list_mix16': (0, [40000, -5, 7]), 'list_mix32': (0, [3000000000, -1, 2 ** 31]),
            'list_mix64': (0, [2 ** 63, -1, 5])}
OTHER = ['list_float', 'list_bool', 'list_str', 'arr_str_U', 'arr_str_O', 'list_datetime', 'arr_dt64', 'arr_tsarray',
         'arr_dt64ns', 'arr_dt64ms', 'arr_dt64s']
KINDS = list(ND) + list(LIST_INT) + OTHER

_STRS = ['', 'a', 'é', '日本', "q'/ ", 'x' * 40, 'a\x00b', 'Z', '\ufeffbom', '\ufeff']
_DTS = [datetime.datetime(2020, 1, 2, 3, 4, 5, 500000), datetime.datetime(1899, 12, 31, 23, 59, 59, 250000),
        datetime.datetime(1904, 1, 1, 0, 0, 0), datetime.datetime(2100, 6, 1, 12, 0, 0, 750000),
        datetime.datetime(1970, 1, 1, 0, 0, 1)]
_TSS = [(3600000000, 12345), (-1, 2 ** 64 - 1), (0, 0), (-2082844800, 1), (5, 2 ** 63)]


def build_data(kind, n, k):
    """-> (writer input, expected type name, expected canonical values list)"""
    from nptdms.timestamp import TdmsTimestamp
    if kind in ND:
        t = ND[kind]
        vals = [G.POOLS[t][(k + j) % len(G.POOLS[t])] for j in range(n)]
        arr = np.frombuffer(b''.join(vals), dtype=G.NPTYPE[t]).copy() if n else np.array([], dtype=G.NPTYPE[t])
        return arr, t, vals
    if kind in LIST_INT:
        _lo, pool = LIST_INT[kind]
        ints = [pool[(k + j) % len(pool)] for j in range(n)]
        # the first element of the pool fixes the width class; make sure it is always present
        if n and pool[0] not in ints:
            ints[0] = pool[0]
        return ints, 'int', ints
    if kind == 'list_float':
        fl = [[1.5, -0.0, float('inf'), 2.0 ** -1074, -1e308][(k + j) % 5] for j in range(n)]
        return fl, 'DoubleFloat', [struct.pack('<d', v) for v in fl]
    if kind == 'list_bool':
        bl = [bool((k + j) % 3) for j in range(n)]
        return bl, 'Boolean', [bytes([int(v)]) for v in bl]
    if kind in ('list_str', 'arr_str_U', 'arr_str_O'):
        ss = [_STRS[(k + j) % len(_STRS)] for j in range(n)]
        if kind == 'arr_str_U':
            ss = [s.replace('\x00', '0') for s in ss]  # numpy '<U' strips trailing NULs; keep it simple
            inp = np.array(ss) if n else None
        elif kind == 'arr_str_O':
            inp = np.array(ss, dtype=object)
        else:
            inp = ss
        return inp, 'String', [s.encode('utf-8') for s in ss]
    if kind == 'list_datetime':
        ds = [_DTS[(k + j) % len(_DTS)] for j in range(n)]
        return ds, 'TimeStamp-us', [np.datetime64(d, 'us').astype('int64').item() for d in ds]
    if kind == 'arr_dt64':
        ds = [_DTS[(k + j) % len(_DTS)] for j in range(n)]
        arr = np.array(ds, dtype='datetime64[us]')
        return arr, 'TimeStamp-us', [v.item() for v in arr.astype('int64')]
    if kind in ('arr_dt64ns', 'arr_dt64ms', 'arr_dt64s'):
        # the same instants in another datetime64 unit (pandas hands out [ns]); all pool values are whole milliseconds
        unit = kind[8:]
        ds = [_DTS[(k + j) % len(_DTS)] for j in range(n)]
        if unit == 's':
            ds = [d.replace(microsecond=0) for d in ds]
        arr = np.array(ds, dtype='datetime64[us]')
        return arr.astype('datetime64[%s]' % unit), 'TimeStamp-us', [v.item() for v in arr.astype('int64')]
    if kind == 'arr_tsarray':
        # what reading with raw_timestamps=True returns, and what defragment() feeds the writer
        from nptdms.timestamp import TimestampArray
        ts = [_TSS[(k + j) % len(_TSS)] for j in range(n)]
        arr = np.array([(f, s) for s, f in ts], dtype=[('second_fractions', '<u8'), ('seconds', '<i8')])
        return TimestampArray(arr), 'TimeStamp', [struct.pack('<Qq', f, s) for s, f in ts]
    raise ValueError(kind)


def kind_allows_empty(kind):
    return kind in ND or kind.startswith('arr_dt64')


# ---------------------------------------------------------------------------------------
# property menus: id -> list of (name, builder -> value, expected TDMS type, expected normalised value)
# ---------------------------------------------------------------------------------------

def _int_type(v):
    if v >= 2 ** 63:
        return 'Uint64'
    if v >= 2 ** 31 or v < -2 ** 31:
        return 'Int64'
    return 'Int32'


def prop_menu(mid):
    from nptdms import types
    from nptdms.timestamp import TdmsTimestamp
    if mid == 0:
        return []
    if mid == 1:
        vals = [0, -2 ** 31 - 1, -2 ** 31, 2 ** 31 - 1, 2 ** 31, 2 ** 63 - 1, 2 ** 63, 2 ** 64 - 1, -2 ** 63, -1]
        return [('i%d' % i, v, _int_type(v), ('int', v)) for i, v in enumerate(vals)]
    if mid == 2:
        out = []
        for name, v in (('f', 1.5), ('nan', float('nan')), ('inf', float('inf')), ('ninf', float('-inf')), ('nz', -0.0)):
            out.append((name, v, 'DoubleFloat', ('float', struct.pack('<d', v).hex())))
        out += [('b', True, 'Boolean', ('bool', True)), ('b0', False, 'Boolean', ('bool', False)),
                ('s', 'é日本', 'String', ('str', 'é日本')), ('e', '', 'String', ('str', '')),
                ("q'/ ", "it's", 'String', ('str', "it's")), ('\ufeffs', '\ufeffv', 'String', ('str', '\ufeffv')),
                # the segment tag as ordinary text inside the metadata
                ('TDSm', 'xTDSmTDShx', 'String', ('str', 'xTDSmTDShx'))]
        return out
    if mid == 3:
        sc = [('np_i8', np.int8(-5), 'Int8'), ('np_u8', np.uint8(200), 'Uint8'), ('np_i16', np.int16(-300), 'Int16'),
              ('np_u16', np.uint16(65535), 'Uint16'), ('np_i32', np.int32(7), 'Int32'),
              ('np_u32', np.uint32(4000000000), 'Uint32'), ('np_i64', np.int64(-2 ** 63), 'Int64'),
              ('np_u64', np.uint64(2 ** 64 - 1), 'Uint64')]
        out = [(n, v, t, ('int', int(v))) for n, v, t in sc]
        out.append(('np_f32', np.float32(1.25), 'SingleFloat', ('float', struct.pack('<d', 1.25).hex())))
        out.append(('np_f64', np.float64(-0.0), 'DoubleFloat', ('float', struct.pack('<d', -0.0).hex())))
        out.append(('np_b', np.bool_(True), 'Boolean', ('bool', True)))
        return out
    if mid == 4:
        out = []
        for i, d in enumerate(_DTS[:3]):
            out.append(('dt%d' % i, d, 'TimeStamp', ('us', np.datetime64(d, 'us').astype('int64').item())))
        d64 = np.datetime64('2100-01-01T00:00:00', 's')
        out.append(('d64s', d64, 'TimeStamp', ('us', d64.astype('datetime64[us]').astype('int64').item())))
        d64 = np.datetime64('1903-12-31T23:59:59.750000', 'us')
        out.append(('d64neg', d64, 'TimeStamp', ('us', d64.astype('int64').item())))
        for unit in ('ns', 'ms', 'D'):
            d64 = np.datetime64('2031-03-04T00:00:00', 'us').astype('datetime64[%s]' % unit) + np.timedelta64(0 if unit == 'D' else 250, unit if unit != 'ns' else 'ms')
            out.append(('d64' + unit, d64, 'TimeStamp', ('us', d64.astype('datetime64[us]').astype('int64').item())))
        for i, (s, f) in enumerate(_TSS[:3]):
            out.append(('ts%d' % i, TdmsTimestamp(s, f), 'TimeStamp', ('ts', s, f)))
        return out
    if mid == 5:
        w = [('w_i8', types.Int8(-1), 'Int8', ('int', -1)), ('w_u8', types.Uint8(255), 'Uint8', ('int', 255)),
             ('w_i16', types.Int16(-2), 'Int16', ('int', -2)), ('w_u16', types.Uint16(65535), 'Uint16', ('int', 65535)),
             ('w_i32', types.Int32(-3), 'Int32', ('int', -3)), ('w_u32', types.Uint32(2 ** 32 - 1), 'Uint32', ('int', 2 ** 32 - 1)),
             ('w_i64', types.Int64(5), 'Int64', ('int', 5)), ('w_u64', types.Uint64(7), 'Uint64', ('int', 7)),
             ('w_f32', types.SingleFloat(1.5), 'SingleFloat', ('float', struct.pack('<d', 1.5).hex())),
             ('w_f64', types.DoubleFloat(2.5), 'DoubleFloat', ('float', struct.pack('<d', 2.5).hex())),
             ('w_s', types.String('wé'), 'String', ('str', 'wé')), ('w_b', types.Boolean(True), 'Boolean', ('bool', True))]
        return w
    if mid == 6:  # overwrites of menu 1/2 names with other values and other types
        return [('i0', 'now a string', 'String', ('str', 'now a string')), ('i3', 2 ** 31, 'Int64', ('int', 2 ** 31)),
                ('i4', 1, 'Int32', ('int', 1)), ('f', 7, 'Int32', ('int', 7)), ('s', 2.5, 'DoubleFloat', ('float', struct.pack('<d', 2.5).hex())),
                ('i6', -1, 'Int32', ('int', -1))]
    if mid == 7:  # a value of a type the writer cannot represent -> the call raises TypeError
        return [('bad', object(), 'String', ('str', ''))]
    if mid == 8:  # bytes: the writer's dispatch names them but String() cannot take them (AttributeError) -> rejected, no effect
        return [('by', b'raw\xc3\xa9', 'String', ('str', 'rawé'))]
    raise ValueError(mid)


N_MENUS = 7

# ---------------------------------------------------------------------------------------
# call shapes
# ---------------------------------------------------------------------------------------
# object descriptors: ['R', menu] | ['G', group, menu] | ['C', group, channel, slot, n, menu]
# slot 0/1/2 selects which entry of the program's kind assignment the channel uses.

GROUPS = {'g': 'g', 'h': "h'/x", 'e': ''}


def call_shapes():
    C = lambda g, c, slot, n, m=0: ['C', g, c, slot, n, m]
    shapes = [
        [],
        [['R', 1]],
        [['R', 2], ['G', 'g', 3]],
        [['G', 'g', 4]],
        [C('g', 'a', 0, 3)],
        [C('g', 'a', 0, 1, 5)],
        [C('g', 'a', 0, 0)],
        [C('g', 'a', 0, 3), C('g', 'b', 1, 1)],
        [C('g', 'b', 1, 3), C('g', 'a', 0, 1)],
        [C('g', 'a', 0, 1), ['G', 'g', 2], ['R', 4]],
        [['R', 6], ['G', 'g', 6], C('g', 'a', 0, 3, 6)],
        [C('h', 'c', 2, 3)],
        [C('g', 'a', 0, 1), C('h', 'c', 2, 1, 1)],
        [['G', 'h', 5], C('h', 'c', 2, 0)],
        [C('h', 'a', 1, 1), C('g', 'a', 0, 1)],
        [C('g', 'b', 1, 0, 2)],
        [['R', 0], ['G', 'g', 0], ['G', 'h', 0]],
        [C('g', 'a', 0, 3, 1), C('g', 'b', 1, 3, 3), C('h', 'c', 2, 3, 4)],
        [C('g', 'a', 0, 1), C('g', 'a', 0, 1)],   # duplicate path: the writer must reject it
        [C('e', '', 0, 1)],                       # empty group and channel names
        [['G', 'e', 2], C('e', 'a', 1, 3)],
        # the same ChannelObject instance written again after its .data was replaced (streaming loop with a shorter last block)
        [['C', 'g', 'a', 0, 1, 7]],                # unsupported property value: rejected while the metadata is built
        [['C*', 'g', 'a', 0, 3, 0]],
        [['C*', 'g', 'a', 0, 1, 0], C('g', 'b', 1, 1)],
        [['G', 'g', 8], C('g', 'a', 0, 1)],        # bytes property value: rejected
        # one TdmsTimestamp instance used as a property value and changed in place (public attributes) between calls
        [['R*'], C('g', 'a', 0, 1)],
        [['R*']],
        # one ChannelObject instance written again after being renamed (.channel / .group are public attributes) and refilled
        [['C@', 'g', 'a', 0, 1, 0]],
        [['C@', 'g', 'b', 1, 3, 0]],
        [['C@', 'h', 'a', 1, 1, 0]],
    ]
    return shapes


def expect_rejected(shape):
    """call shapes built to be refused by the writer: duplicate paths, property values it cannot encode"""
    paths = [tuple(o[1:3]) for o in shape if o[0] in ('C', 'C*', 'C@')]
    return len(paths) != len(set(paths)) or any(o[-1] in (7, 8) for o in shape if len(o) > 1)


def shape_vacuity(counters):
    """every call shape must be accepted as a one-call program for at least one kind assignment, unless built to be refused"""
    out = []
    for i, sh in enumerate(call_shapes()):
        n = counters.get('accepted_shape_%d' % i, 0)
        if expect_rejected(sh) and n:
            out.append('call shape %d is meant to be refused but was accepted' % i)
        if not expect_rejected(sh) and not n:
            out.append('call shape %d was never accepted by the writer (dead alphabet entry)' % i)
    return out


def assignments():
    n = len(KINDS)
    return [(KINDS[i], KINDS[(i + 1) % n], KINDS[(i + 5) % n]) for i in range(n)]


# ---------------------------------------------------------------------------------------
# execution on the real writer
# ---------------------------------------------------------------------------------------

class Skip(Exception):
    pass


def build_objects(call, assign, counters, instances=None):
    from nptdms import RootObject, GroupObject, ChannelObject
    objs = []
    model = []
    instances = {} if instances is None else instances
    for o in call:
        if o[0] == 'R*':
            from nptdms.timestamp import TdmsTimestamp
            k = counters.get('R*', 0)
            counters['R*'] = k + 1
            ts = instances.get('R*')
            if ts is None:
                ts = instances['R*'] = TdmsTimestamp(100, 2 ** 62)
            else:
                ts.seconds, ts.second_fractions = 100 + k, 2 ** 62 + k
            objs.append(RootObject(properties={'stamp': ts}))
            model.append(('/', None, [('stamp', ts, 'TimeStamp', ('ts', 100 + k, 2 ** 62 + k))]))
        elif o[0] == 'R':
            menu = prop_menu(o[1])
            objs.append(RootObject(properties={n: v for n, v, _t, _e in menu} if menu else None))
            model.append(('/', None, menu))
        elif o[0] == 'G':
            menu = prop_menu(o[2])
            objs.append(GroupObject(GROUPS[o[1]], properties={n: v for n, v, _t, _e in menu} if menu else None))
            model.append((('g', GROUPS[o[1]]), None, menu))
        else:
            _c, g, c, slot, n, m = o
            kind = assign[slot]
            if n == 0 and not kind_allows_empty(kind):
                raise Skip('empty input of kind %s has no dtype' % kind)
            key = (GROUPS[g], c)
            k = counters.get(key, 0)
            inp, t, vals = build_data(kind, n, k)
            counters[key] = k + n
            menu = prop_menu(m)
            if _c == 'C@':
                if not isinstance(inp, np.ndarray) or inp.dtype.kind in 'OMU':
                    raise Skip('instance reuse is exercised with plain numeric arrays only')
                obj = instances.get('C@')
                if obj is None:
                    obj = instances['C@'] = ChannelObject(GROUPS[g], c, inp)
                else:
                    obj.group, obj.channel, obj.data = GROUPS[g], c, inp
                objs.append(obj)
                model.append((('c', GROUPS[g], c), (kind, t, vals), []))
                continue
            if _c == 'C*':
                if not isinstance(inp, np.ndarray) or inp.dtype.kind in 'OMU':
                    raise Skip('instance reuse is exercised with plain numeric arrays only')
                if key in instances:
                    obj = instances[key]
                    obj.data = inp          # public attribute: replace the block to be written next
                else:
                    obj = instances[key] = ChannelObject(GROUPS[g], c, inp)
                objs.append(obj)
                model.append((('c', GROUPS[g], c), (kind, t, vals), []))
                continue
            objs.append(ChannelObject(GROUPS[g], c, inp, properties={n_: v for n_, v, _t, _e in menu} if menu else None))
            model.append((('c', GROUPS[g], c), (kind, t, vals), menu))
    return objs, model


def run_program(calls, assign, split, version, dest, index):
    """Execute on the real TdmsWriter.
    -> ('rejected', call index, err) | ('written', data bytes, index bytes|None, model, tmpdir-less)"""
    from nptdms import TdmsWriter
    counters = {}
    instances = {}
    models = []
    rejected = []
    nc = len(calls)
    sessions = [list(range(nc))] if not split or nc < 2 else [list(range(split)), list(range(split, nc))]
    tmp = None
    try:
        if dest in ('path', 'path-stale', 'path-empty'):
            tmp = H.scratch('verif_c07_')
            path = os.path.join(tmp, 'f.tdms')
            if dest == 'path-empty':
                open(path, 'wb').close()     # e.g. from mkstemp / touch: the first appended segment is the first segment of the file
            if dest == 'path-stale':
                # the path already holds a file and its index from an earlier run; this run first re-creates the file (mode 'w')
                # without writing anything and then appends everything in a second session
                from nptdms import RootObject, ChannelObject
                with TdmsWriter(path, index_file=True) as w0:
                    w0.write_segment([RootObject({'run': 1}), ChannelObject('old', 'zz', np.arange(50, dtype=np.int32), {'u': 'V'})])
                    w0.write_segment([ChannelObject('old', 'zz', np.arange(7, dtype=np.int32))])
                sessions = [[], list(range(nc))]
        else:
            stream = io.BytesIO()
            istream = io.BytesIO() if index else None
        for sidx, sess in enumerate(sessions):
            if dest in ('path', 'path-stale', 'path-empty'):
                w = TdmsWriter(path, mode='w' if (sidx == 0 and dest != 'path-empty') else 'a', version=version, index_file=bool(index))
            else:
                w = TdmsWriter(stream, version=version, index_file=istream if index else False)
            with w:
                for ci in sess:
                    # objects are built right before they are written (a reused instance gets its new data only then)
                    before = dict(counters)
                    try:
                        objs, model = build_objects(calls[ci], assign, counters, instances)
                    except Skip:
                        raise
                    except (TypeError, ValueError, OverflowError, AttributeError):
                        # the object constructor refused the input (e.g. an integer list no type of its width can hold): the same
                        # as a refused call - nothing is written, the program continues
                        counters.clear()
                        counters.update(before)
                        models.append([])
                        rejected.append(ci)
                        continue
                    models.append(model)
                    r = H.guarded(w.write_segment, objs)
                    if r[0] != 'ok':
                        # the caller catches the error and carries on: a rejected call must have no effect at all
                        models[-1] = []
                        rejected.append(ci)
        if dest in ('path', 'path-stale', 'path-empty'):
            data = open(path, 'rb').read()
            idx = (open(path + '_index', 'rb').read() if os.path.exists(path + '_index') else b'<no index file>') if index else None
        else:
            data = stream.getvalue()
            idx = istream.getvalue() if index else None
        if rejected and len(rejected) == nc:
            return ('rejected', rejected[0], 'every call was rejected')
        return ('written', data, idx, models)
    finally:
        if tmp:
            shutil.rmtree(tmp, ignore_errors=True)


def expected_content(models):
    """Reference meaning of an accepted program.
    -> dict(channels={(g,c): (kind, type, values)}, order={g: [c..]}, props={pathkey: {name: (type, norm)}}) or Skip"""
    chans, order, props = {}, {}, {}
    for call in models:
        for key, data, menu in call:
            pk = key if key == '/' else tuple(key)
            d = props.setdefault(pk, {})
            for name, _v, t, e in menu:
                d[name] = (t, e)
            if data is not None:
                kind, t, vals = data
                gc = (key[1], key[2])
                if gc in chans:
                    if chans[gc][1] != t:
                        raise Skip('channel written with two dtypes')
                    chans[gc][2].extend(vals)
                else:
                    chans[gc] = [kind, t, list(vals)]
                    order.setdefault(key[1], []).append(key[2])
            elif key != '/':
                order.setdefault(key[1], order.get(key[1], []))
    return {'channels': chans, 'order': order, 'props': props}
