"""Runs the real nptdms (from /repo) and turns what it returns into plain comparable values.

Only public API is used for verdicts.  Every call into nptdms goes through `guarded`, which
turns any exception, hang or allocation blow-up into an *outcome*.
"""
import io
import os
import signal
import struct
import sys
import logging

REPO = os.environ.get('VERIF_REPO', '/repo')
if REPO not in sys.path:
    sys.path.insert(0, REPO)

import numpy as np  # noqa: E402
import nptdms  # noqa: E402
from nptdms import TdmsFile as _RealTdmsFile  # noqa: E402
from nptdms.log import log_manager  # noqa: E402

log_manager.set_level(logging.CRITICAL)
import warnings  # noqa: E402
warnings.simplefilter('ignore')   # numeric warnings of the code under test on extreme pool values are not verdicts
np.seterr(all='ignore')

if not os.path.realpath(nptdms.__file__).startswith(os.path.realpath(REPO) + os.sep):
    sys.stderr.write('harness error: nptdms imported from %s, not %s\n' % (nptdms.__file__, REPO))
    sys.exit(2)

from . import tdmsgen as G  # noqa: E402


class Watchdog(BaseException):
    pass


def _alarm(_s, _f):
    raise Watchdog('execution exceeded the per-execution watchdog')


signal.signal(signal.SIGALRM, _alarm)   # also in the parent process: the watchdog must never be fatal by default action


def arm_worker():
    """Called once in every worker process."""
    try:
        import resource
        lim = 6 << 30
        resource.setrlimit(resource.RLIMIT_AS, (lim, lim))
    except Exception:
        pass
    signal.signal(signal.SIGALRM, _alarm)


def _timed(fn, *a, **kw):
    """Arms the watchdog around a call unless an enclosing guard already did (a hang in code that is not wrapped by
    `guarded` then ends the work item with a harness error instead of blocking the check for ever)."""
    if signal.getitimer(signal.ITIMER_REAL)[0] > 0:
        return fn(*a, **kw)
    signal.setitimer(signal.ITIMER_REAL, float(os.environ.get('VERIF_WATCHDOG_S', '10')) * 3)
    try:
        return fn(*a, **kw)
    finally:
        signal.setitimer(signal.ITIMER_REAL, 0)


class TdmsFile(object):
    """The three public constructors of nptdms.TdmsFile, each under the watchdog."""

    @staticmethod
    def read(*a, **kw):
        return _timed(_RealTdmsFile.read, *a, **kw)

    @staticmethod
    def open(*a, **kw):
        return _timed(_RealTdmsFile.open, *a, **kw)

    @staticmethod
    def read_metadata(*a, **kw):
        return _timed(_RealTdmsFile.read_metadata, *a, **kw)


_HANGS = [0]


def guarded(fn, *a, **kw):
    """-> ('ok', value) | ('raised', TypeName, message)"""
    if _HANGS[0] >= 3:
        # the code under test has hung three times in this process already: do not spend 10 s on every further case
        return ('raised', 'Watchdog', 'not executed: the code under test hung repeatedly in this worker')
    signal.setitimer(signal.ITIMER_REAL, float(os.environ.get('VERIF_WATCHDOG_S', '10')))
    try:
        return ('ok', fn(*a, **kw))
    except Watchdog as e:
        _HANGS[0] += 1
        return ('raised', 'Watchdog', str(e))
    except MemoryError as e:
        return ('raised', 'MemoryError', str(e))
    except Exception as e:  # noqa
        return ('raised', type(e).__name__, str(e)[:200])
    finally:
        signal.setitimer(signal.ITIMER_REAL, 0)


# ---------------------------------------------------------------------------------------
# normalisation of values returned by nptdms
# ---------------------------------------------------------------------------------------

def norm_array(arr):
    """-> (dtype string in native/LE form, count, canonical little-endian bytes | tuple of utf8)"""
    from nptdms.timestamp import TimestampArray
    if isinstance(arr, TimestampArray):
        n = len(arr)
        out = np.empty(n, dtype=[('f', '<u8'), ('s', '<i8')])
        out['f'] = arr['second_fractions']
        out['s'] = arr['seconds']
        # seconds are signed (times before 1904), fractions unsigned: another field type means other values for the same bits
        tag = 'ts' if (arr.dtype['seconds'].kind == 'i' and arr.dtype['second_fractions'].kind == 'u') else 'ts!' + str(arr.dtype)
        return (tag, n, out.tobytes())
    arr = np.asarray(arr)
    if arr.dtype.kind == 'O':
        vals = []
        for v in arr.tolist():
            vals.append(v.encode('utf-8') if isinstance(v, str) else repr(v).encode())
        return ('|O', len(vals), tuple(vals))
    if arr.dtype.kind in 'V' and arr.dtype.names:
        return (str(arr.dtype), len(arr), arr.tobytes())
    dt = arr.dtype.newbyteorder('<') if arr.dtype.byteorder == '>' else arr.dtype
    if dt is not arr.dtype:
        # byte-swapping copy: done on an integer view so that NaN payloads cannot be touched
        if arr.dtype.kind == 'c':
            half = arr.dtype.itemsize // 2
            raw = np.ascontiguousarray(arr).view('>u%d' % half).astype('<u%d' % half).tobytes()
        else:
            raw = np.ascontiguousarray(arr).view('>u%d' % arr.dtype.itemsize).astype(
                '<u%d' % arr.dtype.itemsize).tobytes()
    else:
        raw = np.ascontiguousarray(arr).tobytes()
    return (np.dtype(dt).str, int(arr.shape[0]) if arr.ndim else 1, raw)


def norm_scalar(v):
    """Normalise a single element obtained by integer indexing / iteration."""
    from nptdms.timestamp import TdmsTimestamp
    if isinstance(v, TdmsTimestamp):
        return ('ts', struct.pack('<Qq', int(v.second_fractions), int(v.seconds)))
    if isinstance(v, str):
        return ('|O', v.encode('utf-8'))
    a = np.asarray(v)
    if a.dtype.kind == 'O':
        return ('|O', repr(v).encode())
    return (a.dtype.newbyteorder('<').str if a.dtype.byteorder == '>' else a.dtype.str,
            a.astype(a.dtype.newbyteorder('<')).tobytes() if a.dtype.byteorder == '>' else a.tobytes())


def norm_prop(v):
    """Normalise a property value handed back by the reader."""
    from nptdms.timestamp import TdmsTimestamp
    if isinstance(v, TdmsTimestamp):
        return ('ts', int(v.seconds), int(v.second_fractions))
    if isinstance(v, np.datetime64):
        return ('dt64', str(v.dtype), int(v.astype('int64')))
    if isinstance(v, (bool, np.bool_)):
        return ('bool', bool(v))
    if isinstance(v, (int, np.integer)):
        return ('int', int(v))
    if isinstance(v, (float, np.floating)):
        return ('float', struct.pack('<d', float(v)).hex())
    if isinstance(v, str):
        return ('str', v)
    return ('other', repr(v))


def expected_prop(tname, pyval):
    """The normalised form the reference model expects for a property."""
    if tname == 'TimeStamp':
        return ('ts', pyval[1], pyval[2])
    if tname == 'Boolean':
        return ('bool', bool(pyval))
    if tname == 'String':
        return ('str', pyval)
    if 'Float' in tname:
        return ('float', struct.pack('<d', pyval).hex())
    return ('int', int(pyval))


def expected_array(ref, path):
    """(dtype, count, bytes|tuple) the reference model expects for a standard channel."""
    t = ref.dtype.get(path)
    vals = ref.values.get(path, [])
    if t is None:
        return (None, 0, b'')
    if t == 'String':
        return ('|O', len(vals), tuple(vals))
    return (G.NPTYPE[t], len(vals), b''.join(vals))


# ---------------------------------------------------------------------------------------
# whole-file observation
# ---------------------------------------------------------------------------------------

def read_channel(ch, how='slice'):
    if how == 'slice':
        return ch[:]
    if how == 'read_data':
        return ch.read_data()
    raise ValueError(how)


def observe(data, lazy=False, raw_timestamps=True, index=None, daqmx=False, memmap_dir=None):
    """Structure + properties + data of a TDMS byte string, through the public API."""
    def run():
        stream = io.BytesIO(data)
        kw = {'memmap_dir': memmap_dir} if memmap_dir else {}
        tf = TdmsFile.open(stream, raw_timestamps=raw_timestamps, **kw) if lazy else \
            TdmsFile.read(stream, raw_timestamps=raw_timestamps, **kw)
        try:
            obs = {'groups': [], 'props': {}, 'data': {}, 'len': {}}
            obs['props']['/'] = [(k, norm_prop(v)) for k, v in tf.properties.items()]
            for g in tf.groups():
                chans = []
                obs['props'][g.path] = [(k, norm_prop(v)) for k, v in g.properties.items()]
                for ch in g.channels():
                    chans.append(ch.path)
                    obs['props'][ch.path] = [(k, norm_prop(v)) for k, v in ch.properties.items()]
                    obs['len'][ch.path] = len(ch)
                    if ch.scaler_data_types:
                        d = ch.read_data(scaled=False)
                        if isinstance(d, dict):
                            obs['data'][ch.path] = ('scalers', {int(k): norm_array(v) for k, v in d.items()})
                        else:
                            obs['data'][ch.path] = norm_array(d)
                    else:
                        obs['data'][ch.path] = norm_array(ch[:])
                obs['groups'].append((g.path, chans))
            return obs
        finally:
            if lazy:
                tf.close()
    return guarded(run)


def compare_with_ref(obs, ref, check_dtype=True):
    """-> None if the observation equals the reference interpretation, else a reason string."""
    declared = [p for p in ref.order if _is_group(p)]
    chan_paths = [p for p in ref.order if _is_channel(p)]
    implied = []
    for p in chan_paths:
        gp = _group_of(p)
        if gp not in declared and gp not in implied:
            implied.append(gp)
    got_groups = [g for g, _ in obs['groups']]
    if sorted(got_groups) != sorted(declared + implied) or len(set(got_groups)) != len(got_groups):
        return 'group set: got %r expected %r' % (got_groups, declared + implied)
    if [g for g in got_groups if g in declared] != declared:
        return 'declared group order: got %r expected %r' % (got_groups, declared)
    for g, chans in obs['groups']:
        exp = [p for p in chan_paths if _group_of(p) == g]
        if chans != exp:
            return 'channels of %s: got %r expected %r' % (g, chans, exp)
    for p in ref.order:
        exp = [(k, expected_prop(t, v)) for k, (t, v) in ref.props[p].items()]
        got = obs['props'].get(p)
        if got is None:
            if p == '/' and not exp:
                continue
            return 'object %s missing' % p
        if got != exp:
            return 'properties of %s: got %r expected %r' % (p, got, exp)
    for p in obs['props']:
        if p not in ref.props and not (p == '/' and not obs['props'][p]) and p not in implied:
            return 'unexpected object %s' % p
    for p in chan_paths:
        got = obs['data'].get(p)
        t = ref.dtype.get(p)
        if isinstance(t, tuple):  # daqmx
            why = _cmp_daqmx(got, ref, p, t)
            if why:
                return why
            continue
        exp = expected_array(ref, p)
        if obs['len'].get(p) != exp[1]:
            return 'len(%s): got %r expected %d' % (p, obs['len'].get(p), exp[1])
        if exp[0] is None:
            if got[1] != 0:
                return 'channel %s without data type returned %d values' % (p, got[1])
            continue
        if got[1] != exp[1] or got[2] != exp[2]:
            return 'values of %s: got n=%d %s expected n=%d %s' % (
                p, got[1], _short(got[2]), exp[1], _short(exp[2]))
        if check_dtype and got[0] != exp[0] and not (exp[1] == 0 and exp[0] in ('|O', 'ts')):
            return 'dtype of %s: got %s expected %s' % (p, got[0], exp[0])
    return None


def _cmp_daqmx(got, ref, p, t):
    sv = ref.scaler_values.get(p, {})
    _d, dtype, scalers = t
    n = ref.length(p)
    if dtype == 'DaqMxRawData':
        if got is None or got[0] != 'scalers':
            return 'DAQmx channel %s: expected scaler dict, got %r' % (p, got and got[0])
        if sorted(got[1]) != sorted(sid for sid, _ in scalers):
            return 'DAQmx channel %s: scaler ids %r expected %r' % (p, sorted(got[1]), sorted(s for s, _ in scalers))
        for sid, code in scalers:
            exp = (G.DAQMX_NP[code], len(sv.get(sid, [])), b''.join(sv.get(sid, [])))
            if got[1][sid] != exp:
                return 'DAQmx %s scaler %d: got %s n=%d %s expected %s n=%d %s' % (
                    p, sid, got[1][sid][0], got[1][sid][1], _short(got[1][sid][2]), exp[0], exp[1], _short(exp[2]))
        return None
    sid, code = scalers[0]
    exp = (G.DAQMX_NP[code], n, b''.join(sv.get(sid, [])))
    if got != exp:
        return 'DAQmx %s: got %r expected %r' % (p, got and (got[0], got[1], _short(got[2])), (exp[0], exp[1], _short(exp[2])))
    return None


def _short(b):
    if isinstance(b, tuple):
        return repr(b[:6])[:120]
    return b[:24].hex() + ('..' if len(b) > 24 else '')


def _components(path):
    """Independent splitter for object paths ('' doubling grammar)."""
    comps, i, n = [], 0, len(path)
    if path == '/':
        return comps
    while i < n:
        assert path[i] == '/' and path[i + 1] == "'", path
        i += 2
        cur = []
        while True:
            if path[i] == "'":
                if i + 1 < n and path[i + 1] == "'":
                    cur.append("'")
                    i += 2
                    continue
                i += 1
                break
            cur.append(path[i])
            i += 1
        comps.append(''.join(cur))
    return comps


def _is_group(p):
    return len(_components(p)) == 1


def _is_channel(p):
    return len(_components(p)) == 2


def _group_of(p):
    return "/'" + _components(p)[0].replace("'", "''") + "'"


def scratch(prefix):
    """A fresh scratch directory under the run's scratch root (created and removed by mc.run; RAM-backed when /dev/shm exists)."""
    import tempfile
    root = os.environ.get('VERIF_SCRATCH_ROOT')
    if not root or not os.path.isdir(root):
        root = '/dev/shm' if os.path.isdir('/dev/shm') else None
    return tempfile.mkdtemp(prefix=prefix, dir=root)
