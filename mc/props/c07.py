"""C07 - What TdmsWriter writes is what TdmsFile reads.   (model checking of writer programs)

Programs = sequences of write_segment calls over a finite alphabet of call shapes (root / group / channel
objects in every relevant order, duplicate paths, 27 channel data kinds, 7 property menus with magnitude
boundaries), executed on the real TdmsWriter for EVERY combination of: kind assignment x call sequence up
to the depth x split into 1-2 writer sessions (append mode) x version x destination (path / stream).
The bytes are read back by the real TdmsFile and compared with the reference meaning of the program; the
TDMS type code of every property is read with the independent parser.
"""
from fractions import Fraction
import io
import itertools

import numpy as np

from .. import harness as H
from .. import tdmsparse as P
from .. import writerprog as W

ID = 'C07'
LEVEL = 'model_checking'
TECHNIQUE = 'exhaustive enumeration of write_segment programs (operation sequences up to a depth x session splits x versions x destinations) executed on the real writer and reader, against a reference model of the program'
LEVEL_TEXT = ('Every program over the call-shape alphabet up to depth 2 (quick) / 3 (thorough), for every channel-kind assignment, '
              'session split, format version and destination, is executed on the real TdmsWriter and read back by the real '
              'TdmsFile; data, dtypes, property values and on-disk property type codes are compared with the reference model. '
              'The writer state (root written, groups written) reaches its fixpoint within depth 2. Every tier also runs depth 3 over '
              'the sub-alphabet of shapes that repeat / reorder / rename the same channels, programs with 20 000-value blocks, and '
              'copies through TdmsGroup / TdmsChannel objects. A per-shape vacuity guard makes a call shape the writer never accepts '
              '(unless built to be refused) a harness error.')
LEVEL_NOTE = ('Trusted: the reference meaning in mc/writerprog.py and the independent parser for type codes. Programs the writer '
              'rejects, programs giving one channel two dtypes and empty untyped inputs are counted and skipped (outside the '
              'statement). Microsecond exactness of timestamps is judged by C12; here timestamps must agree within 1 us.')
ASSUMPTIONS = ['integer lists: dtype must be an integer type holding the values exactly (width inference is implementation detail)',
               'group order is not judged; channel order within a group is']

EPOCH_SHIFT_US = int((np.datetime64('1970-01-01T00:00:00', 'us') - np.datetime64('1904-01-01T00:00:00', 'us')).astype('int64'))


def ts_to_us(sec, frac):
    """exact rational microseconds since 1970 for a TDMS (seconds, fractions) pair"""
    return Fraction(sec * 10 ** 6 - EPOCH_SHIFT_US) + Fraction(frac * 10 ** 6, 2 ** 64)


def group_path(g):
    return "/'" + g.replace("'", "''") + "'"


def chan_path(g, c):
    return group_path(g) + "/'" + c.replace("'", "''") + "'"


def compare(data, exp, check_types=True, exact_raw=True):
    """-> None or (kind, message)"""
    r = H.guarded(lambda: H.TdmsFile.read(io.BytesIO(data), raw_timestamps=True))
    if r[0] != 'ok':
        return ('read-raised', 'reading the written file raised %s: %s' % (r[1], r[2]))
    tf = r[1]
    groups = {g.name: g for g in tf.groups()}
    if sorted(groups) != sorted(exp['order']):
        return ('groups', 'groups read %r, written %r' % (sorted(groups), sorted(exp['order'])))
    for gname, chans in exp['order'].items():
        g = groups[gname]
        got = [c.name for c in g.channels()]
        if got != chans:
            return ('channel-order', 'channels of %r: read %r, written %r' % (gname, got, chans))
        if g.name != gname or g.path != group_path(gname):
            return ('names', 'group name/path %r %r' % (g.name, g.path))
        for cname in chans:
            ch = g[cname]
            kind, t, vals = exp['channels'][(gname, cname)]
            if ch.name != cname or ch.group_name != gname or ch.path != chan_path(gname, cname):
                return ('names', 'channel identity %r %r %r' % (ch.name, ch.group_name, ch.path))
            r = H.guarded(lambda: H.norm_array(ch[:]))
            if r[0] != 'ok':
                return ('data-raised', 'channel %s: %s %s' % (ch.path, r[1], r[2]))
            got = r[1]
            if got[1] != len(vals) or len(ch) != len(vals):
                return ('length', '%s (%s): read %d values, wrote %d' % (ch.path, kind, got[1], len(vals)))
            if t == 'int':
                if got[1] and (np.dtype(got[0]).kind not in 'iu' or
                               np.frombuffer(got[2], dtype=got[0]).tolist() != vals):
                    return ('values', '%s (%s): integer list read back as %s %r' % (ch.path, kind, got[0], got[2][:16].hex()))
            elif t == 'String':
                if got[1] and tuple(vals) != got[2]:
                    return ('values', '%s (%s): strings differ: %r' % (ch.path, kind, got[2][:4]))
            elif t == 'TimeStamp':
                if got[0] != 'ts' and got[1]:
                    return ('dtype', '%s: raw timestamps expected, got %s' % (ch.path, got[0]))
                if got[1] and got[2] != b''.join(vals):
                    ok = False
                    if not exact_raw:   # copied through datetime64[us]: sub-microsecond fractions are documented to be lost
                        a1 = np.frombuffer(got[2], dtype=[('f', '<u8'), ('s', '<i8')])
                        a2 = np.frombuffer(b''.join(vals), dtype=[('f', '<u8'), ('s', '<i8')])
                        ok = all(abs(ts_to_us(int(x['s']), int(x['f'])) - ts_to_us(int(y['s']), int(y['f']))) <= 1 for x, y in zip(a1, a2))
                    if not ok:
                        return ('values', '%s (%s): raw timestamps differ' % (ch.path, kind))
            elif t == 'TimeStamp-us':
                if got[1]:
                    if got[0] != 'ts':
                        return ('dtype', '%s: timestamps expected, got %s' % (ch.path, got[0]))
                    arr = np.frombuffer(got[2], dtype=[('f', '<u8'), ('s', '<i8')])
                    for j, us in enumerate(vals):
                        if abs(ts_to_us(int(arr['s'][j]), int(arr['f'][j])) - us) > 1:
                            return ('values', '%s (%s): datetime %d us read back as (%d, %d)'
                                    % (ch.path, kind, us, arr['s'][j], arr['f'][j]))
            else:
                if got[1] and (got[0] != H.G.NPTYPE[t] or got[2] != b''.join(vals)):
                    return ('values', '%s (%s): read %s %s, wrote %s %s' % (ch.path, kind, got[0], H._short(got[2]),
                                                                              H.G.NPTYPE[t], H._short(b''.join(vals))))
                if not got[1] and got[0] != H.G.NPTYPE[t]:
                    return ('dtype', '%s (%s): empty channel read as %s, wrote %s' % (ch.path, kind, got[0], H.G.NPTYPE[t]))
    # the same file opened lazily: full read, last element and a tail window of every channel
    r = H.guarded(lambda: H.TdmsFile.open(io.BytesIO(data), raw_timestamps=True))
    if r[0] != 'ok':
        return ('read-raised', 'opening the written file raised %s: %s' % (r[1], r[2]))
    lz = r[1]
    try:
        for gname, chans in exp['order'].items():
            for cname in chans:
                ech, lch = groups[gname][cname], lz[gname][cname]
                n = len(ech)
                full = H.norm_array(ech[:])
                rr = H.guarded(lambda: (H.norm_array(lch[:]), H.norm_scalar(lch[n - 1]) if n else None,
                                        H.norm_array(lch.read_data(max(n - 2, 0), 2)) if n else None))
                if rr[0] != 'ok':
                    return ('lazy-raised', 'lazy read of %s raised %s: %s' % (lch.path, rr[1], rr[2]))
                lf, last, tail = rr[1]
                if lf[1:] != full[1:] or (n and (last != H.norm_scalar(ech[n - 1]) or tail[1:] != H.norm_array(ech[max(n - 2, 0):n])[1:])):
                    return ('lazy-differs', 'lazy read of %s differs from the eager read of the written file' % lch.path)
    finally:
        lz.close()
    # properties: values through the reader, type codes through the independent parser
    try:
        dec = P.decode(data, strict=False)
    except P.ParseError as e:
        return ('unparseable', str(e))
    for pk, props in exp['props'].items():
        if pk == '/':
            got, path = tf.properties, '/'
        elif pk[0] == 'g':
            got, path = groups[pk[1]].properties, group_path(pk[1])
        else:
            got, path = groups[pk[1]][pk[2]].properties, chan_path(pk[1], pk[2])
        if sorted(got) != sorted(props):
            return ('prop-names', '%s: property names read %r, written %r' % (path, sorted(got), sorted(props)))
        for name, (t, e) in props.items():
            g = H.norm_prop(got[name])
            if e[0] == 'us':
                ok = g[0] == 'ts' and abs(ts_to_us(g[1], g[2]) - e[1]) <= 1
            elif e[0] == 'ts' and not exact_raw:
                ok = g[0] == 'ts' and abs(ts_to_us(g[1], g[2]) - ts_to_us(e[1], e[2])) <= 1
            else:
                ok = g == e
            if not ok:
                return ('prop-value', '%s.%s: read %r, wrote %r' % (path, name, g, e))
            ondisk = dec['props'].get(path, {}).get(name)
            if check_types and (ondisk is None or ondisk[0] != t):
                return ('prop-type', '%s.%s: on-disk type %r, expected %s' % (path, name, ondisk and ondisk[0], t))
    return None


def variants(ncalls):
    for version in (4712, 4713):
        for dest in ('stream', 'path'):
            for split in ([0] + list(range(1, ncalls))):
                yield split, version, dest


def check_program(calls, assign, split, version, dest):
    try:
        r = W.run_program(calls, assign, split, version, dest, index=False)
    except W.Skip as e:
        return 'skipped', None
    if r[0] == 'rejected':
        return 'rejected', None
    try:
        exp = W.expected_content(r[3])
    except W.Skip:
        return 'skipped', None
    why = compare(r[1], exp)
    return ('equal', None) if why is None else ('deviates', why)


def _copy_worker(item):
    """documented alternative input of write_segment: TdmsGroup / TdmsChannel objects read from another file"""
    from nptdms import TdmsWriter, RootObject
    ai, seed = item
    shapes = W.call_shapes()
    assign = W.assignments()[ai]
    res = {'counters': {'programs': 0, 'nontrivial': 0, 'multi_session': 0, 'copies': 0}, 'outcomes': {}, 'violations': [], 'samples': []}
    for seq in ([17], [17, 7], [10, 4, 12], [2, 8, 11, 4], [20, 19]):
        calls = [shapes[i] for i in seq]
        try:
            r = W.run_program(calls, assign, 0, 4713, 'stream', index=False)
            if r[0] != 'written':
                continue
            exp = W.expected_content(r[3])
        except W.Skip:
            continue
        for raw_ts in (False, True):
            res['counters']['programs'] += 1
            res['counters']['copies'] += 1

            def copy():
                tf = H.TdmsFile.read(io.BytesIO(r[1]), raw_timestamps=raw_ts)
                out = io.BytesIO()
                with TdmsWriter(out) as w:
                    objs = [RootObject(tf.properties)]
                    for g in tf.groups():
                        objs.append(g)
                        objs.extend(g.channels())
                    w.write_segment(objs)
                return out.getvalue()
            c = H.guarded(copy)
            if c[0] != 'ok':
                why = ('copy-raised', 'writing TdmsGroup/TdmsChannel objects raised %s: %s' % (c[1], c[2]))
            else:
                why = compare(c[1], exp, check_types=False, exact_raw=raw_ts)
            oc = 'equal' if why is None else 'deviates'
            res['outcomes'][oc] = res['outcomes'].get(oc, 0) + 1
            res['counters']['nontrivial'] += 1
            if why is not None and len(res['violations']) < 10:
                kinds = sorted(set(assign[o[3]] for cl in calls for o in cl if o[0] in ('C', 'C*', 'C@')))
                res['violations'].append({'case': {'copy_seq': list(seq), 'assign': list(assign), 'raw_ts': raw_ts},
                                          'expected': 'copy through TdmsGroup/TdmsChannel objects == original', 'observed': why[1],
                                          'signature': {'kind': 'copy-' + why[0], 'data_kinds': kinds, 'detail': None}})
    return res


def _big_worker(item):
    """blocks far beyond any buffer size (20 000 values, 20-320 KB) in every position of a two-call program, one session and
    two (append mode), path and stream, both versions: what a writer does differently for large segments"""
    ai, seed = item
    assign = W.assignments()[ai]
    res = {'counters': {'programs': 0, 'nontrivial': 0, 'multi_session': 0}, 'outcomes': {}, 'violations': [], 'samples': []}
    if assign[0] not in W.ND or assign[1] not in W.ND:
        return res
    big = [['C', 'g', 'a', 0, 20000, 0]]
    small = [['C', 'g', 'a', 0, 3, 0], ['C', 'g', 'b', 1, 2, 0]]
    bigb = [['C', 'g', 'b', 1, 20000, 0], ['C', 'g', 'a', 0, 1, 0]]
    for calls in ([big], [small, big], [big, small], [big, big], [small, bigb], [bigb, big]):
        for split, version, dest in variants(len(calls)):
            oc, why = check_program(calls, assign, split, version, dest)
            res['counters']['programs'] += 1
            res['counters']['nontrivial'] += 1
            res['counters']['multi_session'] += 1 if split else 0
            res['outcomes'][oc] = res['outcomes'].get(oc, 0) + 1
            if why is not None and len(res['violations']) < 6:
                res['violations'].append({'case': {'big_calls': calls, 'assign': list(assign), 'split': split, 'version': version, 'dest': dest},
                                          'expected': 'read back == written', 'observed': why[1],
                                          'signature': {'kind': 'big-' + why[0], 'data_kinds': sorted(set(assign[:2])), 'detail': 'split=%s dest=%s' % (bool(split), dest)}})
    return res


def writer_states(calls, split):
    """abstract writer states (root written?, groups declared so far in this session) a program passes through"""
    out = set()
    nc = len(calls)
    sessions = [list(range(nc))] if not split or nc < 2 else [list(range(split)), list(range(split, nc))]
    for sess in sessions:
        st = (False, frozenset())
        out.add(repr((st[0], sorted(st[1]))))
        for ci in sess:
            groups = set(st[1])
            for o in calls[ci]:
                if o[0] in ('G', 'C', 'C*', 'C@'):
                    groups.add(o[1])
            st = (True, frozenset(groups))
            out.add(repr((st[0], sorted(st[1]))))
    return out


def _worker(item):
    first, depth, ai, seed = item[:4]
    sub = item[4] if len(item) > 4 else None     # restricted alphabet (shape indices) for the deeper quick-tier tree
    shapes = W.call_shapes()
    assign = W.assignments()[ai]
    res = {'counters': {'programs': 0, 'nontrivial': 0, 'multi_session': 0}, 'outcomes': {}, 'violations': [], 'samples': [], 'distinct': set()}

    def rec(seq):
        calls = [shapes[i] for i in seq]
        for sp in [0] + list(range(1, len(seq))):
            res['distinct'] |= writer_states(calls, sp)
        for split, version, dest in variants(len(seq)):
            oc, why = check_program(calls, assign, split, version, dest)
            res['counters']['programs'] += 1
            res['outcomes'][oc] = res['outcomes'].get(oc, 0) + 1
            if oc in ('equal', 'deviates') and any(o[0] in ('C', 'C*', 'C@') for c in calls for o in c):
                res['counters']['nontrivial'] += 1
            if split:
                res['counters']['multi_session'] += 1
            if len(seq) == 1 and oc in ('equal', 'deviates'):
                k_ = 'accepted_shape_%d' % seq[0]
                res['counters'][k_] = res['counters'].get(k_, 0) + 1
            if why is not None and len(res['violations']) < 25:
                kinds = sorted(set(assign[o[3]] for c in calls for o in c if o[0] in ('C', 'C*', 'C@')))
                res['violations'].append({
                    'case': {'seq': list(seq), 'assign': list(assign), 'split': split, 'version': version, 'dest': dest},
                    'expected': 'read back == written', 'observed': why[1],
                    'signature': {'kind': why[0], 'data_kinds': kinds if why[0] in ('values', 'length', 'dtype', 'data-raised', 'read-raised') else None,
                                  'detail': why[1].split(':')[0][-24:] if why[0].startswith('prop') else None}})
            if not res['samples'] and len(seq) == depth and oc == 'equal' and split:
                res['samples'].append({'calls': calls, 'kinds': list(assign), 'split': split, 'version': version, 'dest': dest})
        if len(seq) < depth:
            for i in (sub if sub is not None else range(len(shapes))):
                rec(seq + [i])
    rec([first])
    return res


# call shapes that differ in channel order / channel set / block length / reused instances: explored to depth 3 in every tier
ORDER_SUB = [4, 7, 8, 12, 14, 17, 23, 27, 28]
# call shapes that set the SAME property names on root / group / channel to different values and types (menus 1, 2 vs 6): to depth 3
# in every tier, so that a property goes A -> B -> A (what a "do not repeat what the file already holds" cache gets wrong)
PROP_SUB = [1, 2, 9, 10, 17]


def run(ctx):
    from ..run import merge
    depth = 2 if ctx.tier == 'quick' else 3
    shapes = W.call_shapes()
    nassign = len(W.assignments())
    # depth 2 for every kind assignment; depth 3 (thorough) for every third assignment (each data kind still occurs in all 3 slots)
    items = [(f, 2, ai, ctx.seed) for ai in range(nassign) for f in range(len(shapes))]
    if depth >= 3:
        items = [it for it in items if it[2] % 3] + [(f, 3, ai, ctx.seed) for ai in range(0, nassign, 3) for f in range(len(shapes))]
    else:
        items += [(f, 3, ai, ctx.seed, ORDER_SUB) for ai in range(0, nassign, 4) for f in ORDER_SUB]
    items += [(f, 3, ai, ctx.seed, PROP_SUB) for ai in range(0, nassign, 4) for f in PROP_SUB]
    m = merge(ctx.map(_worker, items, chunksize=2) + ctx.map(_copy_worker, [(ai, ctx.seed) for ai in range(nassign)]) +
              ctx.map(_big_worker, [(ai, ctx.seed) for ai in range(nassign)]))
    c = m['counters']
    vac = []
    for need in ('equal', 'rejected', 'skipped'):
        if not m['outcomes'].get(need) and not (need == 'equal' and m['outcomes'].get('deviates')):
            vac.append('no program with outcome ' + need)
    if not c.get('multi_session'):
        vac.append('no multi-session program')
    vac += W.shape_vacuity(c)
    # writer-state machine: (root written, groups written) - tiny, reported for completeness
    states = len(m['distinct'])
    cov = {'states': states, 'transitions': c['programs'], 'traces_validated_against_impl': c['programs'],
           'evaluations': c['programs'], 'distinct_nontrivial': c['nontrivial'],
           'rule': 'distinct programs = (kind assignment, call sequence, session split, version, destination); non-trivial = '
                   'accepted by the writer and writing at least one channel',
           'alphabet': {'call_shapes': len(shapes), 'kind_assignments': nassign, 'data_kinds': W.KINDS,
                        'property_menus': W.N_MENUS, 'depth': depth},
           'writer_state_note': 'states = distinct abstract writer states (root written?, groups declared in the session) passed through by the enumerated programs, measured',
           'outcomes': m['outcomes'], 'samples': m['samples'][:4], 'exhaustive': True, 'vacuity_failures': vac}
    return cov, m['violations']


def replay(case):
    shapes = W.call_shapes()
    if 'copy_seq' in case:
        ai = [list(a) for a in W.assignments()].index(case['assign'])
        r = _copy_worker((ai, 0))
        for v in r['violations']:
            if v['case']['copy_seq'] == case['copy_seq'] and v['case']['raw_ts'] == case['raw_ts']:
                return True, v['expected'], v['observed']
        return False, 'copy == original', 'equal'
    calls = case['big_calls'] if 'big_calls' in case else [shapes[i] for i in case['seq']]
    oc, why = check_program(calls, tuple(case['assign']), case['split'], case['version'], case['dest'])
    if why is None:
        return False, 'read back == written', oc
    return True, 'read back == written', why[1]
