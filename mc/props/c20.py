"""C20 - npTDMS closes the files it opened, only those, and fails loudly afterwards.   (fault enumeration)

base files x ONE fault (quick) / TWO faults - one in the data file and one in the index (thorough) - from the menu
{cut at every offset; every 4-byte window of every lead-in and metadata block overwritten with each of
 {0, 1, 0xFFFF, 0xFFFFFFFF, 0x1234}; tag corrupted; index of a different file; index cut at every offset}
x {path, caller stream} x {no index, index} x API scenario {read, read_metadata, with open(): ops,
 open; ops; close; ops; close}; and TdmsWriter {path, stream} x {index off, on} x {normal exit, exception in
 the with-block, write_segment raising}.
Oracle, evaluated while a raised exception is still held: no entry of /proc/self/fd resolves into our temp
directory; caller streams are not closed; after close() every read raises or returns the correct value;
close() twice is silent.
"""
import io
import os
import shutil
import struct
import tempfile

import numpy as np

from .. import tdmsgen as G
from .. import harness as H
from .. import families as F
from ..streams import fd_snapshot

ID = 'C20'
LEVEL = 'fault_enumeration'
TECHNIQUE = 'exhaustive single/double fault injection (every cut, every 4-byte overwrite of every header byte position x value menu, index mismatch) x API scenarios on the real code; descriptor accounting via /proc/self/fd'
LEVEL_TEXT = ('Every fault of a positional menu is applied to each base file (all cuts; every 4-byte window of lead-ins and metadata x 5 '
              'values; foreign / truncated / corrupted index) and every API scenario is run on the faulty input, from a path and from '
              'a caller stream, with and without index file; descriptors are counted through /proc/self/fd while any exception is '
              'still alive, caller streams (BytesIO, and an unbuffered raw stream for intact / cut files) must stay open, reads after '
              'close() must raise or be correct, an exception raised inside the with-block must leave it; TdmsFile.read with memmap_dir '
              'is a further scenario (descriptors of the data file must be gone although the arrays live on).')
LEVEL_NOTE = ('Trusted: /proc/self/fd. Not judged: descriptors after TdmsFile.open() itself raises (the statement lists read, '
              'read_metadata, close() and the with-block). A per-execution watchdog and address-space limit turn hangs and blow-ups '
              'into raised outcomes.')
ASSUMPTIONS = ['after close(), a cache hit that needs no file may return the correct value']

A, B = F.A, F.B
MENU = [0, 1, 0xFFFF, 0xFFFFFFFF, 0x1234]


def base_files():
    p = [['p', 'Int32', '07000000'], ['s', 'String', 'c3a9']]
    out = {
        'two-channels': [G.seg([('/', ['NODATA'], p), (A, ['FULL', 'Int32', 2]), (B, ['FULL', 'Int16', 3])], chunks=2)],
        'three-segments': [G.seg([(A, ['FULL', 'Int32', 2]), (B, ['FULL', 'Int16', 1])]), G.seg([], meta=False, chunks=2),
                           G.seg([(A, ['SAME']), (B, ['NODATA'])], newlist=False)],
        'interleaved': [G.seg([(A, ['FULL', 'Int32', 2]), (B, ['FULL', 'DoubleFloat', 2])], chunks=2, interleaved=True)],
        'daqmx': [G.seg([(A, F.daqmx_enc(2, [(3, 0, 0, 0, 0)], [4]), [F._uprop('NI_Number_Of_Scales', 1)]),
                         (B, F.daqmx_enc(2, [(3, 0, 2, 0, 0)], [4]), [F._uprop('NI_Number_Of_Scales', 1)])], chunks=2)],
        'strings': [G.seg([(A, ['FULL', 'String', 2, 5]), (B, ['FULL', 'Int32', 1])], chunks=2)],
        'big-endian': [G.seg([("/'g'", ['NODATA'], p), (A, ['FULL', 'TimeStamp', 2]), (B, ['FULL', 'Int8', 2])], big=True)],
        # every channel one plain block of the file (what a single write_segment call or defragment produces)
        'single-chunk': [G.seg([(A, ['FULL', 'Int32', 3]), (B, ['FULL', 'DoubleFloat', 2])], chunks=1)],
    }
    return out


def faults_for(data, layout, tier):
    """[(name, faulty bytes)] single faults of the data file"""
    out = []
    for cut in range(0, len(data)):
        out.append((['cut', cut], data[:cut]))
    for si, s in enumerate(layout):
        end = s['data_start']
        for pos in range(s['start'], min(end, len(data) - 3)):
            for v in MENU:
                b = bytearray(data)
                b[pos:pos + 4] = struct.pack('<I', v)
                out.append((['overwrite', pos, v], bytes(b)))
        b = bytearray(data)
        b[s['start']:s['start'] + 4] = b'TDSx'
        out.append((['tag', si], bytes(b)))
    return out


def index_faults(idx, other_idx):
    out = [(['index-foreign'], other_idx)]
    for cut in range(0, len(idx)):
        out.append((['index-cut', cut], idx[:cut]))
    for pos in range(0, len(idx) - 3, 1):
        for v in (0, 0xFFFFFFFF, 0x1234):
            b = bytearray(idx)
            b[pos:pos + 4] = struct.pack('<I', v)
            out.append((['index-overwrite', pos, v], bytes(b)))
    return out


class Env(object):
    def __init__(self):
        self.tmp = H.scratch('verif_c20_')
        self.path = os.path.join(self.tmp, 'f.tdms')
        self.mm = H.scratch('verif_c20mm_')      # memmap_dir: outside the judged directory (the library's own temporary files)
        self.handles = []

    def reset_handles(self):
        for f in self.handles:
            if not f.closed:
                try:
                    f.close()
                except Exception:  # noqa
                    pass
        self.handles = []

    def put(self, data, idx):
        self.reset_handles()
        with open(self.path, 'wb') as f:
            f.write(data)
        ip = self.path + '_index'
        if idx is None:
            if os.path.exists(ip):
                os.remove(ip)
        else:
            with open(ip, 'wb') as f:
                f.write(idx)

    def leaks(self):
        """files under our temp directory that are still open: descriptors listed in /proc/self/fd, and file objects
        handed out by open() (recorded by the wrapper below, which keeps them alive so that a handle the library merely
        dropped - and only the reference counter closed - is still seen as not closed by the library)"""
        real = os.path.realpath(self.tmp)
        out = set(os.path.basename(t) for t in fd_snapshot().values() if t.startswith(real) or t.startswith(self.tmp))
        out.update(os.path.basename(f.name) for f in self.handles if not f.closed)
        return sorted(out)

    def __enter__(self):
        import builtins
        self.handles = []
        self._open = builtins.open
        env = self

        def recording_open(file, *a, **kw):
            f = env._open(file, *a, **kw)
            try:
                if isinstance(file, str) and (file.startswith(env.tmp) or os.path.realpath(file).startswith(os.path.realpath(env.tmp))):
                    env.handles.append(f)
            except Exception:  # noqa
                pass
            return f
        builtins.open = recording_open
        return self

    def __exit__(self, *exc):
        import builtins
        builtins.open = self._open
        for f in self.handles:
            try:
                f.close()
            except Exception:  # noqa
                pass
        self.handles = []

    def close(self):
        shutil.rmtree(self.tmp, ignore_errors=True)
        shutil.rmtree(self.mm, ignore_errors=True)


def ops_of(tf):
    """A few reads on an open file; -> list of (name, thunk)"""
    out = []
    for g in tf.groups():
        for ch in g.channels():
            try:
                if len(ch) == 0:
                    continue
            except Exception:  # noqa - corrupted counts may not fit an index
                pass
            out.append(('index', lambda ch=ch: H.norm_scalar(ch[0])))
            out.append(('slice', lambda ch=ch: H.norm_array(ch[:])))
            out.append(('window', lambda ch=ch: H.norm_array(ch.read_data(1, 1))))
            out.append(('chunks', lambda ch=ch: [H.norm_array(c[:]) for c in ch.data_chunks()]))
            out.append(('iter', lambda ch=ch: [H.norm_scalar(v) for v in ch]))
    out.append(('file-chunks', lambda: [1 for _ in tf.data_chunks()]))
    return out


def _safe_ops(tf):
    try:
        return ops_of(tf)
    except H.Watchdog:
        raise
    except Exception:  # noqa
        return []


def scenario(env, api, src, data, idx):
    """Run one API scenario.  -> list of (kind, message) problems"""
    probs = []
    env.reset_handles()   # whatever an earlier (possibly not judged) scenario left behind is not this scenario's business
    from ..streams import RawBytesStream
    stream = io.BytesIO(data) if src == 'stream' else (RawBytesStream(data) if src == 'rawstream' else None)
    source = stream if stream is not None else env.path
    H.signal.setitimer(H.signal.ITIMER_REAL, 3.0)
    try:
        if api in ('read', 'read_metadata', 'read-memmap'):
            try:
                tf = H.TdmsFile.read(source, memmap_dir=env.mm) if api == 'read-memmap' else getattr(H.TdmsFile, api)(source)
            except Exception:  # noqa - the exception object is alive here: frames still reference the reader
                lk = env.leaks()
                if lk:
                    probs.append(('fd-leak-after-raise', '%s raised and left %r open' % (api, lk)))
            else:
                lk = env.leaks()
                if lk:
                    probs.append(('fd-leak', '%s returned and left %r open' % (api, lk)))
                for k in (1, 2):
                    try:
                        tf.close()
                    except Exception as e:  # noqa
                        probs.append(('close-raised', 'close() number %d after %s raised %s: %s' % (k, api, type(e).__name__, e)))
                        break
                del tf
        elif api == 'with-open':
            try:
                held = []
                with H.TdmsFile.open(source) as tf:
                    for name, op in _safe_ops(tf):
                        try:
                            op()
                        except Exception:  # noqa
                            pass
                    try:
                        held.append(tf.data_chunks())
                        next(held[-1])
                    except Exception:  # noqa
                        pass
            except Exception:  # noqa
                tf = None
                # open() itself raised -> not judged; a raise inside the block has already run __exit__
            else:
                lk = env.leaks()
                if lk:
                    probs.append(('fd-leak', 'with TdmsFile.open(...) block left %r open' % (lk,)))
                # the same object used as a context manager once more, then closed twice: none of it may raise or leave a handle
                try:
                    with tf:
                        pass
                except Exception as e:  # noqa
                    if type(e).__name__ not in ('RuntimeError', 'ValueError'):
                        probs.append(('close-raised', 'second with-block on the same object raised %s: %s' % (type(e).__name__, e)))
                for k in (1, 2):
                    try:
                        tf.close()
                    except Exception as e:  # noqa
                        probs.append(('close-raised', 'close() number %d after the with-blocks raised %s: %s' % (k, type(e).__name__, e)))
                        break
                lk = env.leaks()
                if lk:
                    probs.append(('fd-leak', 'with-block entered twice left %r open' % (lk,)))
        elif api == 'with-open-raise':
            class Boom(Exception):
                pass
            entered = []
            kept = []
            try:
                with H.TdmsFile.open(source) as tf:
                    entered.append(1)
                    kept.extend(ch for g in tf.groups() for ch in g.channels())
                    ops = _safe_ops(tf)
                    if ops:
                        try:
                            ops[0][1]()
                        except Exception:  # noqa
                            pass
                    raise Boom('error inside the with-block')
            except Boom:   # the exception (and through its traceback the file object) is still alive here
                lk = env.leaks()
                if lk:
                    probs.append(('fd-leak-after-raise', 'with-block left by an exception: %r still open' % (lk,)))
                for ch in kept:
                    try:
                        n_ = len(ch)
                        got = ch.read_data(0, 1) if n_ else None
                    except Exception:  # noqa
                        continue
                    if n_ and got is not None and len(got):
                        probs.append(('read-after-with-block', 'channel.read_data after the with-block was left by an exception returned data'))
                        break
            except Exception:  # noqa - open() itself raised: not judged
                pass
            else:
                if entered:
                    probs.append(('exception-swallowed', 'an exception raised inside the with-block of TdmsFile.open did not leave it'))
        elif api == 'open-close-read-close':
            try:
                tf = H.TdmsFile.open(source)
            except Exception:  # noqa
                tf = None
            if tf is not None:
                before = {}
                ops = _safe_ops(tf)
                # chunk iterators started, not exhausted and still referenced when the file is closed
                held = []
                try:
                    held.append(tf.data_chunks())
                    next(held[-1])
                    for g_ in tf.groups():
                        for c_ in g_.channels():
                            held.append(c_.data_chunks())
                            next(held[-1])
                except Exception:  # noqa
                    pass
                for i, (name, op) in enumerate(ops):
                    try:
                        before[i] = ('ok', op())
                    except Exception as e:  # noqa
                        before[i] = ('raised', type(e).__name__)
                try:
                    tf.close()
                except Exception as e:  # noqa
                    probs.append(('close-raised', 'close() raised %s' % type(e).__name__))
                lk = env.leaks()
                if lk:
                    probs.append(('fd-leak', 'close() left %r open (%d partly consumed chunk iterators are still referenced)' % (lk, len(held))))
                # an iterator that was under way needs the file for its next chunk: it has to raise (or be exhausted), not deliver
                for gi, g_ in enumerate(held):
                    try:
                        nxt = next(g_)
                    except StopIteration:
                        continue
                    except Exception:  # noqa
                        continue
                    probs.append(('iterator-continues-after-close', 'chunk iterator %d (started before close()) delivered another chunk after close()' % gi))
                    break
                for i, (name, op) in enumerate(ops):
                    try:
                        got = op()
                    except Exception:  # noqa
                        continue
                    if before[i][0] == 'ok' and got != before[i][1] or before[i][0] != 'ok':
                        if name == 'file-chunks' and got == []:
                            continue
                        probs.append(('stale-read-after-close', '%s after close() returned %r (before close: %r)'
                                      % (name, repr(got)[:80], repr(before[i])[:80])))
                try:
                    tf.close()
                except Exception as e:  # noqa
                    probs.append(('close-twice-raised', 'second close() raised %s: %s' % (type(e).__name__, e)))
                lk = env.leaks()
                if lk:
                    probs.append(('fd-leak', 'second close() left %r open' % (lk,)))
    except H.Watchdog:
        # termination on corrupted input is not part of this property; descriptors still are
        HANGS[0] += 1
        lk = env.leaks() if api in ('read', 'read_metadata', 'read-memmap') else []
        if lk:
            probs.append(('fd-leak-after-raise', '%s was interrupted and left %r open' % (api, lk)))
    finally:
        H.signal.setitimer(H.signal.ITIMER_REAL, 0)
    if stream is not None and stream.closed:
        probs.append(('caller-stream-closed', '%s closed the stream supplied by the caller' % api))
    # the index handed over as a caller stream (it starts with TDSh): it must not be closed either
    if src == 'stream' and idx is not None and api in ('read', 'read_metadata', 'with-open'):
        istream = io.BytesIO(idx)
        H.signal.setitimer(H.signal.ITIMER_REAL, 3.0)
        try:
            if api == 'with-open':
                with H.TdmsFile.open(istream):
                    pass
            else:
                getattr(H.TdmsFile, api)(istream)
        except H.Watchdog:
            pass
        except Exception:  # noqa
            pass
        finally:
            H.signal.setitimer(H.signal.ITIMER_REAL, 0)
        if istream.closed:
            probs.append(('caller-stream-closed', '%s closed the index stream supplied by the caller' % api))
    return probs


HANGS = [0]
APIS = ['read', 'read_metadata', 'with-open', 'with-open-raise', 'open-close-read-close']


def run_base(item):
    name, part, nparts, tier, seed = item
    hist = base_files()[name]
    data, idx, layout, ref = G.encode(hist, seed=seed, index=True)
    other = G.encode(base_files()['two-channels' if name != 'two-channels' else 'strings'], seed=seed, index=True)[1]
    res = {'counters': {'runs': 0, 'faults': 0, 'nontrivial': 0, 'raised_inputs': 0}, 'outcomes': {}, 'violations': [], 'samples': []}
    env = Env().__enter__()
    seen = set()

    def record(fault, api, src, withidx, probs):
        for kind, msg in probs:
            k = (kind, api, src, withidx, fault[0])
            if k in seen:
                continue
            seen.add(k)
            res['violations'].append({'case': {'file': name, 'fault': fault, 'api': api, 'src': src, 'index': withidx, 'seed': seed},
                                      'expected': 'no descriptor left, caller stream open, loud failure after close',
                                      'observed': msg,
                                      'signature': {'kind': kind, 'api': api, 'src': src, 'index': withidx, 'fault': fault[0]}})
    try:
        faults = [(['none'], data)] + faults_for(data, layout, tier)
        mine = [f for i, f in enumerate(faults) if i % nparts == part]
        for fault, fdata in mine:
            res['counters']['faults'] += 1
            for withidx in (False, True):
                env.put(fdata, idx if withidx else None)
                for src in ('path', 'stream', 'rawstream'):
                    if src != 'path' and withidx:
                        continue
                    if src == 'rawstream' and fault[0] not in ('none', 'cut'):
                        continue   # the unbuffered caller stream: intact and cut files (overwrites are explored with the other two)
                    for api in APIS + (['read-memmap'] if (src == 'path' and fault[0] in ('none', 'cut')) else []):
                        res['counters']['runs'] += 1
                        res['counters']['nontrivial'] += 1 if fault[0] != 'none' else 0
                        record(fault, api, src, withidx, scenario(env, api, src, fdata, idx))
        if part == 0:
            # the data file cannot be opened although an index file sits beside it (moved away / replaced by a directory)
            import pathlib
            for how in ('missing', 'directory'):
                for spell in ('str', 'pathlib'):
                    for api in ('read', 'read_metadata'):
                        env.put(data, idx)
                        os.remove(env.path)
                        if how == 'directory':
                            os.mkdir(env.path)
                        res['counters']['runs'] += 1
                        res['counters']['nontrivial'] += 1
                        probs = []
                        src_ = env.path if spell == 'str' else pathlib.Path(env.path)
                        try:
                            getattr(H.TdmsFile, api)(src_)
                        except Exception:  # noqa - exception alive while we look
                            lk = env.leaks()
                            if lk:
                                probs.append(('fd-leak-after-raise', '%s raised on an unopenable data file and left %r open' % (api, lk)))
                        record(['data-' + how, spell], api, 'path', True, probs)
                        if how == 'directory':
                            os.rmdir(env.path)
        # index faults (with the intact data file; thorough: also with every 7th data fault)
        ifaults = index_faults(idx, other)
        mine_i = [f for i, f in enumerate(ifaults) if i % nparts == part]
        data_variants = [(['none'], data)]
        if tier == 'thorough':
            data_variants += [f for i, f in enumerate(faults_for(data, layout, tier)) if i % 7 == 3]
        for ifault, fidx in mine_i:
            for dfault, fdata in data_variants:
                res['counters']['faults'] += 1
                env.put(fdata, fidx)
                for api in APIS:
                    res['counters']['runs'] += 1
                    res['counters']['nontrivial'] += 1
                    record(ifault + dfault, api, 'path', True, scenario(env, api, 'path', fdata, fidx))
    finally:
        env.__exit__()
        env.close()
    res['outcomes']['clean' if not res['violations'] else 'problem'] = 1
    res['counters']['watchdog_interrupts'] = HANGS[0]
    HANGS[0] = 0
    if part == 0:
        res['samples'].append({'file': name, 'history': G.describe(hist), 'data_faults': len(faults), 'index_faults': len(ifaults)})
    return res


def writer_scenarios(_item):
    from nptdms import TdmsWriter, ChannelObject, RootObject
    res = {'counters': {'runs': 0, 'faults': 0, 'nontrivial': 0}, 'outcomes': {}, 'violations': [], 'samples': []}
    env = Env().__enter__()
    try:
        for dest in ('path', 'stream'):
            for index in (False, True):
                for how in ('normal', 'exception-in-block', 'write-segment-raises', 'two-sessions-append', 'same-writer-twice',
                            'same-writer-after-exception'):
                    res['counters']['runs'] += 1
                    res['counters']['nontrivial'] += 1
                    out = io.BytesIO()
                    iout = io.BytesIO()
                    for p in (env.path, env.path + '_index'):
                        if os.path.exists(p):
                            os.remove(p)

                    def mk(mode='w'):
                        if dest == 'path':
                            return TdmsWriter(env.path, mode=mode, index_file=index)
                        return TdmsWriter(out, index_file=iout if index else False)
                    probs = []
                    try:
                        with mk() as w:
                            w.write_segment([RootObject({'a': 1}), ChannelObject('g', 'c', np.arange(3))])
                            if how == 'exception-in-block':
                                raise KeyError('boom')
                            if how == 'write-segment-raises':
                                w.write_segment([ChannelObject('g', 'c', np.arange(3)), ChannelObject('g', 'c', np.arange(3))])
                        if how == 'two-sessions-append':
                            with mk('a') as w:
                                w.write_segment([ChannelObject('g', 'c', np.arange(2))])
                        if how.startswith('same-writer'):
                            # one writer object (append mode) used for a second with-block
                            w2 = mk('a')
                            try:
                                with w2:
                                    w2.write_segment([ChannelObject('g', 'c', np.arange(2))])
                                    if how == 'same-writer-after-exception':
                                        raise KeyError('boom')
                            except KeyError:
                                pass
                            with w2:
                                w2.write_segment([ChannelObject('g', 'c', np.arange(4))])
                    except Exception:  # noqa  (exception still alive while we look)
                        lk = env.leaks()
                        if lk:
                            probs.append(('writer-fd-leak-after-raise', 'TdmsWriter left %r open after an exception (%s)' % (lk, how)))
                    else:
                        lk = env.leaks()
                        if lk:
                            probs.append(('writer-fd-leak', 'TdmsWriter left %r open (%s)' % (lk, how)))
                    if dest == 'stream' and (out.closed or iout.closed):
                        probs.append(('caller-stream-closed', 'TdmsWriter closed a stream supplied by the caller (%s)' % how))
                    for kind, msg in probs:
                        res['violations'].append({'case': {'writer': how, 'dest': dest, 'index': index},
                                                  'expected': 'no descriptor left, caller streams open', 'observed': msg,
                                                  'signature': {'kind': kind, 'dest': dest, 'index': index, 'how': how}})
    finally:
        env.__exit__()
        env.close()
    return res


def run(ctx):
    from ..run import merge
    names = list(base_files())
    nparts = 8 if ctx.tier == 'quick' else 16
    items = [(n, p, nparts, ctx.tier, ctx.seed) for n in names for p in range(nparts)]
    m = merge(ctx.map(run_base, items))
    mw = merge(ctx.map(writer_scenarios, [0]))
    c = m['counters']
    cov = {'evaluations': c['runs'] + mw['counters']['runs'], 'fault_cases': c['faults'], 'writer_scenarios': mw['counters']['runs'],
           'distinct_nontrivial': c['nontrivial'] + mw['counters']['nontrivial'],
           'rule': 'one case = (base file, fault or fault pair, source kind, index present, API scenario); non-trivial = a fault is '
                   'present (or a writer scenario); all distinct by construction',
           'apis': APIS, 'outcomes': m['outcomes'], 'samples': m['samples'][:3], 'exhaustive': True,
           'vacuity_failures': [] if c['faults'] > 100 else ['fault menu nearly empty']}
    return cov, m['violations'] + mw['violations']


def replay(case):
    if 'writer' in case:
        r = writer_scenarios(0)
        for v in r['violations']:
            if v['case'] == case:
                return True, v['expected'], v['observed']
        return False, 'clean', 'clean'
    hist = base_files()[case['file']]
    data, idx, layout, ref = G.encode(hist, seed=case.get('seed', 0), index=True)
    other = G.encode(base_files()['two-channels' if case['file'] != 'two-channels' else 'strings'], seed=case.get('seed', 0), index=True)[1]
    fault = case['fault']
    fdata, fidx = data, idx
    allf = {repr(f): d for f, d in faults_for(data, layout, 'thorough')}
    alli = {repr(f): d for f, d in index_faults(idx, other)}
    if fault[0].startswith('index'):
        n = 1 if fault[0] == 'index-foreign' else (2 if fault[0] == 'index-cut' else 3)
        fidx = alli[repr(fault[:n])]
        rest = fault[n:]
        if rest and rest[0] != 'none':
            fdata = allf[repr(rest)]
    elif fault[0] != 'none':
        fdata = allf[repr(fault)]
    env = Env().__enter__()
    try:
        env.put(fdata, fidx if case['index'] else None)
        probs = scenario(env, case['api'], case['src'], fdata, fidx)
    finally:
        env.__exit__()
        env.close()
    if probs:
        return True, 'clean', probs[0][1]
    return False, 'clean', 'clean'
