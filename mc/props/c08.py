"""C08 - TdmsWriter emits structurally valid segments and a faithful index file.   (model checking)

Same program space as C07 (shared enumeration, separate oracle), with index_file off / True (path) /
a stream.  Oracle = the independent strict parser (mc/tdmsparse.py).
"""
from .. import harness as H
from .. import tdmsparse as P
from .. import writerprog as W

ID = 'C08'
LEVEL = 'model_checking'
TECHNIQUE = 'exhaustive enumeration of write_segment programs on the real writer; emitted bytes judged by an independent strict structural parser'
LEVEL_TEXT = ('Every program over the C07 alphabet (call sequences to depth 2/3 x kind assignments x session splits x versions x '
              'destinations x index file off/on) is executed on the real TdmsWriter; the emitted .tdms and .tdms_index bytes are '
              'parsed by an independent strict parser that checks every offset and length field against the bytes present. Extra '
              'destination: a path that already holds a file and its index, re-created by a session that writes nothing and then '
              'appended to; depth 3 over the channel-repeating sub-alphabet in every tier.')
LEVEL_NOTE = ('Trusted: mc/tdmsparse.py (bound to LabVIEW-written files and the maintainers scenarios by selftest). Checked: '
              'next-segment/raw-data offsets, every length field (paths, raw data index incl. 20/28, strings), metadata parses to '
              'exactly raw_data_offset bytes, raw length = declared sizes, root in first segment, group no later than channel, '
              'index == data minus raw data with TDSm->TDSh.')
ASSUMPTIONS = ['programs the writer rejects are counted and skipped']


def judge(data, idx):
    try:
        dec = P.decode(data, strict=True, exact_meta=True)
    except P.ParseError as e:
        return (e.field.split('.')[-1] if e.field else 'parse', 'data file: ' + str(e))
    segs = dec['segments']
    if segs:
        if not any(o['path'] == '/' for o in segs[0]['objects']):
            return ('root-missing', 'first segment of the file does not declare the root object')
    declared = set()
    for s in segs:
        for o in s['objects']:
            comps = H._components(o['path'])
            if len(comps) == 1:
                declared.add(comps[0])
            elif len(comps) == 2 and comps[0] not in declared:
                return ('group-order', 'channel %s appears before its group object' % o['path'])
        for (chunk, n) in [dec['seg_raw'][s['index']]]:
            if chunk not in ('daqmx', 0) and n != 1:
                return ('raw-length', 'segment %d holds %d chunks of the declared size (writer emits exactly one)' % (s['index'], n))
    if idx is not None:
        exp = b''.join(b'TDSh' + data[s['start'] + 4:s['data_start']] for s in segs)
        if idx != exp:
            try:
                P.parse(idx, index=True)
                detail = 'parses, but differs from the data file without raw data'
            except P.ParseError as e:
                detail = str(e)
            return ('index-differs', 'index file (%d bytes) != data file minus raw data (%d bytes): %s' % (len(idx), len(exp), detail))
    return None


def check_program(calls, assign, split, version, dest, index):
    try:
        r = W.run_program(calls, assign, split, version, dest, index=index)
    except W.Skip:
        return 'skipped', None
    if r[0] == 'rejected':
        return 'rejected', None
    why = judge(r[1], r[2])
    return ('valid', None) if why is None else ('invalid', why)


def writer_states(calls, split):
    """abstract writer states (root written?, groups declared so far in this session) a program passes through"""
    out = set()
    nc = len(calls)
    sessions = [list(range(nc))] if not split or nc < 2 else [list(range(split)), list(range(split, nc))]
    for sess in sessions:
        st = (False, frozenset())
        out.add(repr((st[0], sorted(st[1]))))
        for ci in sess:
            groups = set(st[1])
            for o in calls[ci]:
                if o[0] in ('G', 'C', 'C*', 'C@'):
                    groups.add(o[1])
            st = (True, frozenset(groups))
            out.add(repr((st[0], sorted(st[1]))))
    return out


def _worker(item):
    first, depth, ai, seed = item[:4]
    sub = item[4] if len(item) > 4 else None     # restricted alphabet (shape indices) for the deeper quick-tier tree
    shapes = W.call_shapes()
    assign = W.assignments()[ai]
    res = {'counters': {'programs': 0, 'nontrivial': 0, 'with_index': 0}, 'outcomes': {}, 'violations': [], 'samples': [], 'distinct': set()}

    def rec(seq):
        calls = [shapes[i] for i in seq]
        for sp in [0] + list(range(1, len(seq))):
            res['distinct'] |= writer_states(calls, sp)
        for version in (4712, 4713):
            for dest in ('stream', 'path', 'path-stale', 'path-empty'):
                for split in [0] + list(range(1, len(seq))):
                    if dest in ('path-stale', 'path-empty') and (split or len(seq) > 2):
                        continue
                    for index in ((False, True) if dest != 'path-stale' else (True,)):
                        oc, why = check_program(calls, assign, split, version, dest, index)
                        res['counters']['programs'] += 1
                        res['outcomes'][oc] = res['outcomes'].get(oc, 0) + 1
                        if oc in ('valid', 'invalid') and any(o[0] in ('C', 'C*', 'C@') for c in calls for o in c):
                            res['counters']['nontrivial'] += 1
                        if index:
                            res['counters']['with_index'] += 1
                        if len(seq) == 1 and oc in ('valid', 'invalid'):
                            k_ = 'accepted_shape_%d' % seq[0]
                            res['counters'][k_] = res['counters'].get(k_, 0) + 1
                        if why is not None and len(res['violations']) < 25:
                            kinds = sorted(set(assign[o[3]] for c in calls for o in c if o[0] in ('C', 'C*', 'C@')))
                            res['violations'].append({
                                'case': {'seq': list(seq), 'assign': list(assign), 'split': split, 'version': version,
                                         'dest': dest, 'index': index},
                                'expected': 'structurally valid segments / faithful index', 'observed': why[1],
                                'signature': {'kind': why[0], 'field': why[1].split(':')[1].strip()[:40] if ':' in why[1] else None,
                                              'string_channel': any(k in ('list_str', 'arr_str_U', 'arr_str_O') for k in kinds)}})
                        if not res['samples'] and len(seq) == depth and oc == 'valid' and index and split:
                            res['samples'].append({'calls': calls, 'kinds': list(assign), 'split': split, 'version': version,
                                                   'dest': dest, 'index': index})
        if len(seq) < depth:
            for i in (sub if sub is not None else range(len(shapes))):
                rec(seq + [i])
    rec([first])
    return res


def run(ctx):
    from ..run import merge
    depth = 2 if ctx.tier == 'quick' else 3
    shapes = W.call_shapes()
    nassign = len(W.assignments())
    # depth 2 for every kind assignment; depth 3 (thorough) for every third assignment (each data kind still occurs in all 3 slots)
    items = [(f, 2, ai, ctx.seed) for ai in range(nassign) for f in range(len(shapes))]
    if depth >= 3:
        items = [it for it in items if it[2] % 3] + [(f, 3, ai, ctx.seed) for ai in range(0, nassign, 3) for f in range(len(shapes))]
    else:
        # three calls over the sub-alphabet of shapes that repeat / reorder the same channels (what a writer may try to merge or
        # abbreviate between calls only shows from the second call of a session on)
        from .c07 import ORDER_SUB
        items += [(f, 3, ai, ctx.seed, ORDER_SUB) for ai in range(0, nassign, 3) for f in ORDER_SUB]
    m = merge(ctx.map(_worker, items, chunksize=2))
    c = m['counters']
    vac = []
    if not c.get('with_index'):
        vac.append('no program wrote an index file')
    vac += W.shape_vacuity(c)
    if not (m['outcomes'].get('valid') or m['outcomes'].get('invalid')):
        vac.append('no accepted program')
    cov = {'states': len(m['distinct']), 'transitions': c['programs'], 'traces_validated_against_impl': c['programs'],
           'evaluations': c['programs'], 'distinct_nontrivial': c['nontrivial'],
           'rule': 'distinct programs = (kind assignment, call sequence, session split, version, destination, index on/off); '
                   'non-trivial = accepted and writing at least one channel',
           'alphabet': {'call_shapes': len(shapes), 'kind_assignments': nassign, 'depth': depth},
           'outcomes': m['outcomes'], 'samples': m['samples'][:4], 'exhaustive': True, 'vacuity_failures': vac}
    return cov, m['violations']


def replay(case):
    shapes = W.call_shapes()
    calls = [shapes[i] for i in case['seq']]
    oc, why = check_program(calls, tuple(case['assign']), case['split'], case['version'], case['dest'], case['index'])
    if why is None:
        return False, 'structurally valid', oc
    return True, 'structurally valid', why[1]
