"""C01 - Reading returns exactly the content the file encodes.   (exploration, exhaustive)

Fully explicit files (every segment restates everything; inheritance belongs to C02):
 part 1  type x type x layout x chunks x lengths square (all 17 readable types)
 part 2  multi-segment accumulation over root / two groups / three channels: object subsets and
         orders, per-segment lengths incl. 0, chunk counts, both layouts
 part 3  properties: every readable property type on root / group / channel with
         set / overwrite / overwrite-with-other-type / add-second patterns
 part 4  a few shapes beyond the small bounds (wide, long, strings, declaration order)
 part 5  every subset of a segment's objects carrying properties x a second segment (first-appearance order and
         last-value-wins must not depend on which objects have properties)
Oracle: TdmsFile.read (and TdmsFile.open + channel[:]) against the reference interpretation.
"""
import itertools

from .. import tdmsgen as G
from .. import harness as H

ID = 'C01'
LEVEL = 'exploration'
TECHNIQUE = 'bounded-exhaustive enumeration of explicit TDMS files executed on the real reader against an independent reference model'
LEVEL_TEXT = ('Exhaustive enumeration of three stated finite families of well-formed files (type x type x layout x chunking '
              'x lengths square; multi-segment object-set/order/length histories; property type/update patterns), each read '
              'by the real code eagerly and lazily and compared bit-exactly with the reference interpretation.')
LEVEL_NOTE = ('Trusted: independent encoder/semantics mc/tdmsgen.py. Bounds: <=3 channels, <=3 values per chunk, <=3 chunks, '
              '<=3 segments; value pools per type (extremes, NaN payloads, non-ASCII); files >= 2^31 bytes not explored.')
ASSUMPTIONS = ['position of groups that are only implied by their channels is not judged',
               'dtype of an empty string or (raw) timestamp channel is not judged here (C14 covers declared vs returned dtypes)']

A, B, C = "/'g'/'a'", "/'g'/'b'", "/'h'/'c'"
GG, GH = "/'g'", "/'h'"


def full(t, n):
    return ['FULL', 'String', n, 2 * n + 1] if t == 'String' else ['FULL', t, n]


def sized(t):
    return G.TYPES[t][1] is not None


# --- part 1 ----------------------------------------------------------------------------

def part1_cases(tier):
    lens = (0, 1, 2, 3)
    for ta in G.T17:
        for tb in G.T17:
            yield ('pair', ta, tb)
    for ta in G.T17:
        yield ('single', ta, None)


def run_part1(item):
    kind, ta, tb, seed = item
    res = _res()
    lens = (0, 1, 2, 3)
    for chunks, big in [(c, b) for c in (1, 2, 3) for b in (False, True)]:
        if big and chunks == 3:
            continue   # byte order is C15's subject; here the big-endian encoding of the same square is read as a cross-check
        be = {'big': True} if big else {}
        if kind == 'single':
            for n in lens:
                for il in (False, True):
                    h = [G.seg([(A, full(ta, n))], chunks=chunks, interleaved=il, big=big)]
                    _exec(res, h, seed, dict({'part': 1, 'type_a': ta, 'type_b': None,
                                              'layout': 'interleaved' if il else 'contiguous'}, **be), n > 0)
            continue
        for la in lens:
            for lb in lens:
                h = [G.seg([(A, full(ta, la)), (B, full(tb, lb))], chunks=chunks, big=big)]
                _exec(res, h, seed, dict({'part': 1, 'type_a': ta, 'type_b': tb, 'layout': 'contiguous'}, **be), la + lb > 0)
                if la == lb and sized(ta) and sized(tb):
                    h = [G.seg([(A, full(ta, la)), (B, full(tb, lb))], chunks=chunks, interleaved=True, big=big)]
                    _exec(res, h, seed, dict({'part': 1, 'type_a': ta, 'type_b': tb, 'layout': 'interleaved'}, **be), la > 0)
    return res


# --- part 2 ----------------------------------------------------------------------------

SHAPES = [
    [], ['/'], ['/', GG, A], [A], [A, GG], [GG, GH, A, B, C], [C, B, A], [B, A], [GH], [A, B], [C], ['/', GH, C, GG],
    [A, C], [GG, B], [B, C, '/'], [GH, GG],
]
TYPESETS = [
    {A: 'Int32', B: 'Int16', C: 'DoubleFloat'},
    {A: 'String', B: 'TimeStamp', C: 'Int8'},
    {A: 'ComplexDoubleFloat', B: 'Boolean', C: 'String'},
    {A: 'Int64', B: 'SingleFloat', C: 'Uint16'},
]


def seg_labels(lens, chunk_opts):
    out = []
    for shape in SHAPES:
        chans = [p for p in shape if p in (A, B, C)]
        for ls in itertools.product(lens, repeat=len(chans)):
            for chunks in (chunk_opts if any(ls) else (1,)):
                for il in ((False, True) if (len(set(ls)) == 1 and chans and ls[0] > 0) else (False,)):
                    out.append((shape, dict(zip(chans, ls)), chunks, il))
    return out


def mk_seg2(label, types):
    shape, ls, chunks, il = label
    objs = []
    for p in shape:
        objs.append((p, full(types[p], ls[p]) if p in ls else ['NODATA']))
    il_ok = il and all(sized(types[p]) for p in ls)
    if il and not il_ok and len(ls) == 1:
        il_ok = True  # the "interleaved flag on a single string channel" shape
    return G.seg(objs, chunks=chunks, interleaved=il_ok)


def run_part2(item):
    first, depth, tsi, tier, seed = item
    types = TYPESETS[tsi]
    labs = _labs2(tier, depth)
    res = _res()

    def rec(prefix):
        if len(prefix) == depth:
            h = [mk_seg2(l, types) for l in prefix]
            _exec(res, h, seed, {'part': 2, 'typeset': tsi}, depth >= 2 and sum(any(l[1].values()) for l in prefix) >= 2)
            return
        for l in labs:
            rec(prefix + [l])
    rec([labs[first]])
    return res


_L2 = {}


def _labs2(tier, depth):
    k = (tier, depth)
    if k not in _L2:
        if depth <= 2:
            _L2[k] = seg_labels((0, 1, 2), (1, 2))
        else:
            _L2[k] = seg_labels((0, 2), (1,)) if tier == 'quick' else seg_labels((0, 1, 2), (1,))
    return _L2[k]


# --- part 3 ----------------------------------------------------------------------------

def prop_vals(t):
    if t == 'String':
        return ['', 'a', 'é日本', "'/ x", 'y' * 300, 'a\x00b', '\ufeffbom', '\ufeff']
    pool = G.POOLS[t]
    return pool[:6]


def hexval(t, v):
    return v.encode('utf-8').hex() if t == 'String' else v.hex()


def run_part3(item):
    t1, seed = item
    res = _res()
    v1 = prop_vals(t1)
    for target, path in (('root', '/'), ('group', GG), ('channel', A)):
        base = [('/', ['NODATA']), (GG, ['NODATA']), (A, full('Int32', 1))]

        def withp(plist):
            return [(p, e, plist if p == path else []) for p, e in base]
        # every value of the type, set once
        for v in v1:
            _exec(res, [G.seg(withp([['p', t1, hexval(t1, v)]]))], seed, {'part': 3, 'ptype': t1, 'target': target}, True)
        # overwrite with another value, in the same and in a later segment
        p_a, p_b = ['p', t1, hexval(t1, v1[0])], ['p', t1, hexval(t1, v1[1])]
        _exec(res, [G.seg(withp([p_a])), G.seg(withp([p_b]))], seed, {'part': 3, 'ptype': t1, 'target': target}, True)
        _exec(res, [G.seg(withp([p_a, p_b]))], seed, {'part': 3, 'ptype': t1, 'target': target, 'dup': True}, True)
        _exec(res, [G.seg(withp([p_a])), G.seg(withp([])), G.seg(withp([p_b])), G.seg(withp([]))], seed,
              {'part': 3, 'ptype': t1, 'target': target}, True)
        if t1 == 'DoubleFloat':
            # rewrites whose new value compares equal to the old one in Python but is a different value / type on disk
            import struct as _st
            eq_pairs = [(['p', 'DoubleFloat', _st.pack('<d', 0.0).hex()], ['p', 'DoubleFloat', _st.pack('<d', -0.0).hex()]),
                        (['p', 'Int32', _st.pack('<i', 1).hex()], ['p', 'DoubleFloat', _st.pack('<d', 1.0).hex()]),
                        (['p', 'Int32', _st.pack('<i', 1).hex()], ['p', 'Boolean', '01']),
                        (['p', 'Uint8', '00'], ['p', 'Boolean', '00']),
                        (['p', 'DoubleFloat', _st.pack('<d', 2.0).hex()], ['p', 'Int64', _st.pack('<q', 2).hex()]),
                        (['p', 'SingleFloat', _st.pack('<f', 0.5).hex()], ['p', 'DoubleFloat', _st.pack('<d', 0.5).hex()]),
                        (['p', 'Int8', 'ff'], ['p', 'Int64', _st.pack('<q', -1).hex()])]
            for old, new in eq_pairs:
                for a_, b_ in ((old, new), (new, old)):
                    _exec(res, [G.seg(withp([a_])), G.seg(withp([b_]))], seed, {'part': 3, 'ptype': 'eq-rewrite', 'target': target}, True)
                    _exec(res, [G.seg(withp([a_])), G.seg([(path, ['NODATA'] if path != A else ['SAME'], [b_])], newlist=False)], seed,
                          {'part': 3, 'ptype': 'eq-rewrite', 'target': target}, True)
        for t2 in G.PROP_TYPES:
            v2 = prop_vals(t2)
            q = ['p', t2, hexval(t2, v2[2 % len(v2)])]
            # overwrite with another type
            _exec(res, [G.seg(withp([p_a])), G.seg(withp([q]))], seed,
                  {'part': 3, 'ptype': t1, 'ptype2': t2, 'target': target}, True)
            # add a second property, later segment restates only the second
            q2 = ['q', t2, hexval(t2, v2[3 % len(v2)])]
            _exec(res, [G.seg(withp([p_a, q2])), G.seg(withp([['q', t2, hexval(t2, v2[0])]]))], seed,
                  {'part': 3, 'ptype': t1, 'ptype2': t2, 'target': target}, True)
    return res


# --- part 4: beyond the small bounds (a few larger shapes) --------------------------------------

def run_part4(item):
    which, seed = item
    res = _res()
    paths = ["/'g'/'c%d'" % i for i in range(6)]
    types = ['Int8', 'Int32', 'String', 'DoubleFloat', 'TimeStamp', 'Uint16']
    if which == 'wide':
        # six channels, five values, four chunks; contiguous, and interleaved without the string channel; padded metadata
        for pad in (0, 3, 17):
            objs = [(p, full(t, 5)) for p, t in zip(paths, types)]
            _exec(res, [G.seg(objs, chunks=4, pad=pad), G.seg([(paths[1], ['SAME']), (paths[2], ['NODATA'])], newlist=False, chunks=3, pad=pad)],
                  seed, {'part': 4, 'shape': 'wide'}, True)
            objs_il = [(p, full(t, 4)) for p, t in zip(paths, types) if t != 'String']
            _exec(res, [G.seg(objs_il, chunks=5, interleaved=True, pad=pad)], seed, {'part': 4, 'shape': 'wide-interleaved'}, True)
    elif which == 'long':
        # 150 segments: a header, 99 metadata-less repeats, an append-mode change, 49 more repeats
        h = [G.seg([(paths[0], full('Int8', 2)), (paths[1], full('Int32', 1)), (paths[2], full('String', 1))])]
        h += [G.seg([], meta=False, chunks=1 + (i % 2)) for i in range(99)]
        h.append(G.seg([(paths[1], full('Int32', 3)), (paths[3], full('DoubleFloat', 1))], newlist=False))
        h += [G.seg([], meta=False) for _ in range(49)]
        _exec(res, h, seed, {'part': 4, 'shape': 'long'}, True)
    elif which == 'strings':
        # long, empty and multi-byte strings as data and as property values
        vals = ['', 'x' * 300, '日本語' * 40, 'a', '', 'é' * 129]
        hx = [v.encode('utf-8').hex() for v in vals]
        props = [['long', 'String', ('y' * 1000).encode().hex()], ['empty', 'String', ''], ['', 'String', 'name-is-empty'.encode().hex()]]
        h = [G.seg([('/', ['NODATA'], props), (paths[2], ['FULL', 'String', len(vals), sum(len(x) // 2 for x in hx), hx], props)], chunks=3)]
        _exec(res, h, seed, {'part': 4, 'shape': 'strings'}, True)
    elif which.startswith('strchunk'):
        # every chunk of 2 and 3 strings over an alphabet of short texts (widths 0-3 bytes: empty, NUL at either end, all-NUL,
        # multi-byte characters): equal and unequal widths side by side, followed by a second chunk shape
        alpha = ['', 'a', '\x00', 'ab', 'a\x00', '\x00a', 'é', 'abc', 'ab\x00', '\x00\x00\x00', '日', 'é\x00']
        first = alpha[int(which[8:])]
        for rest in [(b_,) for b_ in alpha] + [(b_, c_) for b_ in alpha for c_ in alpha]:
            vals = (first,) + rest
            hx = [v.encode('utf-8').hex() for v in vals]
            h = [G.seg([(paths[2], ['FULL', 'String', len(vals), sum(len(x) // 2 for x in hx), hx]), (paths[0], full('Int8', 1))], chunks=2)]
            _exec(res, h, seed, {'part': 4, 'shape': 'string-chunks'}, True)
    elif which == 'order':
        # channels before their group, root last, a group without channels, channels without group object
        h = [G.seg([(paths[0], full('Int8', 1)), ("/'h'/'x'", full('Int16', 2)), ("/'g'", ['NODATA'], [['p', 'Int32', '01000000']]),
                    ("/'lonely'", ['NODATA']), ('/', ['NODATA'], [['r', 'Boolean', '01']])]),
             G.seg([("/'h'/'y'", full('Int16', 1)), ("/'h'/'x'", ['SAME']), ("/'h'", ['NODATA'], [['late', 'String', '6f6b']])], newlist=False)]
        _exec(res, h, seed, {'part': 4, 'shape': 'order'}, True)
    return res


# --- part 5: which objects of a segment carry properties (order of first appearance must not depend on it) ----------------

P5_SHAPES = [[GG, GH, A, B, C], ['/', GH, C, GG], [GH, GG], [A, B], [B, A, GG], [C, B, A], ['/', GG, A], [GG, B, GH]]
P5_TYPES = {A: 'Int32', B: 'Int16', C: 'DoubleFloat'}


def _p5_seg(shape, mask, k):
    objs = []
    for i, p in enumerate(shape):
        props = [['p', 'Int32', bytes([k * 16 + i, 0, 0, 0]).hex()], ['q%d' % k, 'String', b'v'.hex()]] if mask >> i & 1 else []
        objs.append((p, full(P5_TYPES[p], 1) if p in P5_TYPES else ['NODATA'], props))
    return G.seg(objs)


def run_part5(item):
    si, seed = item
    res = _res()
    shape = P5_SHAPES[si]
    for mask in range(1 << len(shape)):
        s1 = _p5_seg(shape, mask, 0)
        _exec(res, [s1], seed, {'part': 5, 'shape': si}, mask > 0)
        for sj, shape2 in enumerate(P5_SHAPES):
            full2 = (1 << len(shape2)) - 1
            for mask2 in sorted({0, full2, 1, 1 << (len(shape2) - 1), 0b01010 & full2, 0b10101 & full2}):
                _exec(res, [s1, _p5_seg(shape2, mask2, 1)], seed, {'part': 5, 'shape': si, 'shape2': sj}, mask + mask2 > 0)
    return res


# --- execution -------------------------------------------------------------------------

def _res():
    return {'counters': {'files': 0, 'nontrivial': 0}, 'outcomes': {}, 'violations': [], 'samples': []}


def check(h, seed):
    data, _i, _l, ref = G.encode(h, seed=seed)
    if ref.forbidden:
        return 'skipped-forbidden', None
    for mode in ('eager', 'lazy'):
        o = H.observe(data, lazy=(mode == 'lazy'))
        if o[0] != 'ok':
            return 'raised', (mode, 'raised %s: %s' % (o[1], o[2]), 'raised')
        why = H.compare_with_ref(o[1], ref)
        if why:
            return 'differs', (mode, why, 'differs-from-reference')
    return 'equal', None


def _exec(res, h, seed, sig, nontrivial):
    outcome, bad = check(h, seed)
    res['counters']['files'] += 1
    if nontrivial:
        res['counters']['nontrivial'] += 1
    res['outcomes'][outcome] = res['outcomes'].get(outcome, 0) + 1
    if bad is not None and len(res['violations']) < 30:
        s = dict(sig)
        s['kind'] = bad[2]
        s['mode'] = bad[0]
        res['violations'].append({'case': {'history': h, 'seed': seed}, 'expected': 'reads as reference interpretation',
                                  'observed': bad[1], 'signature': s})
    if len(res['samples']) < 1 and nontrivial and len(h) > 1:
        res['samples'].append({'history': G.describe(h), 'outcome': outcome})


def run(ctx):
    from ..run import merge
    seed = ctx.seed
    r1 = merge(ctx.map(run_part1, [c + (seed,) for c in part1_cases(ctx.tier)], chunksize=4))
    items = []
    plan = [(2, ts) for ts in range(len(TYPESETS) if ctx.tier == 'thorough' else 2)]
    plan += [(3, ts) for ts in range(2 if ctx.tier == 'thorough' else 1)]
    for depth, ts in plan:
        for first in range(len(_labs2(ctx.tier, depth))):
            items.append((first, depth, ts, ctx.tier, seed))
    r2 = merge(ctx.map(run_part2, items, chunksize=2))
    r3 = merge(ctx.map(run_part3, [(t, seed) for t in G.PROP_TYPES]) + ctx.map(run_part4, [(w, seed) for w in ['wide', 'long', 'strings', 'order'] + ['strchunk%d' % i for i in range(12)]])
               + ctx.map(run_part5, [(si, seed) for si in range(len(P5_SHAPES))]))
    m = merge([{k: r[k] for k in ('counters', 'outcomes', 'violations', 'samples')} for r in (r1, r2, r3)])
    vac = []
    if not (r1['counters'].get('files') and r2['counters'].get('files') and r3['counters'].get('files')):
        vac.append('a part enumerated nothing')
    if m['outcomes'].get('skipped-forbidden'):
        vac.append('generator produced forbidden histories in an explicit family')
    cov = {
        'evaluations': m['counters']['files'] * 2, 'files': m['counters']['files'],
        'distinct_nontrivial': m['counters']['nontrivial'],
        'rule': 'distinct generated files (by construction: distinct parameter tuples); non-trivial = carries data '
                '(part 1), >=2 data-bearing segments (part 2), or a property (part 3); each file is read eagerly and lazily',
        'parts': {'type_square': r1['counters']['files'], 'multi_segment': r2['counters']['files'],
                  'properties': r3['counters']['files']},
        'segment_labels': {'depth2': len(_labs2(ctx.tier, 2)), 'depth3': len(_labs2(ctx.tier, 3))},
        'outcomes': m['outcomes'], 'samples': (r2['samples'][:3] + r3['samples'][:2] + r1['samples'][:1]) or m['samples'],
        'exhaustive': True, 'vacuity_failures': vac,
    }
    return cov, m['violations']


def replay(case):
    outcome, bad = check(case['history'], case.get('seed', 0))
    if bad is None:
        return False, 'reads as reference interpretation', outcome
    return True, 'reads as reference interpretation', bad[1]
