"""C13 - Scaled data is the dataflow evaluation of the NI_Scale definitions.   (exploration)

Scale graphs of depth 1..2 (quick) / 1..3 (thorough) over {Linear, Polynomial (0/1/3 coefficients, with/without size
property), Table (ascending/descending), Add, Subtract} with EVERY wiring of input sources to {raw, earlier scale},
on raw data of every real numeric type; scaling properties on channel / group / root with every precedence
conflict, with / without NI_Number_Of_Scales, NI_Scaling_Status in {absent, unscaled, scaled} per level; DAQmx
channels whose scales read raw scalers by id.  Sensor scalings (thermocouple, RTD, thermistor, strain; values judged by
C17/C18) are put through the same structural probes: windows equal slices of the scaled data (NaN samples included),
lazy == eager, repeated reads agree, raw data untouched.
"""
import io
import itertools
import struct

import numpy as np

from .. import tdmsgen as G
from .. import harness as H
from .. import families as F
from .. import refscale as R

ID = 'C13'
LEVEL = 'exploration'
TECHNIQUE = 'bounded-exhaustive enumeration of scale graphs x wirings x raw types x property placements on the real reader, against an independent dataflow evaluator'
LEVEL_TEXT = ('All scale graphs up to depth 2/3 over 9 structural scale instances with every input-source wiring, for each of the 10 '
              'real numeric raw types, plus all 216 channel/group/root placement-status combinations for two graphs and DAQmx '
              'scaler-id graphs, are written by the independent encoder and read by the real code (eager, lazy, windows, chunks); '
              'values are compared with an independent evaluator, windows with slices of the full result, raw data before/after.')
LEVEL_NOTE = ('Trusted: mc/refscale.py (Horner, clamped piecewise-linear interpolation, float64). Tolerance 8 ulp of the result dtype '
              'relative to the largest intermediate magnitude. Subtract = right - left and Table input = "scaled values" follow the '
              'conventions documented in the implementation (Excel plug-in behaviour).')
ASSUMPTIONS = ['raw values are small so that integer Add/Subtract cannot overflow', 'coefficients are a fixed alphabet (two sets)']

A, B = F.A, F.B
NUMERIC = ['Int8', 'Int16', 'Int32', 'Int64', 'Uint8', 'Uint16', 'Uint32', 'Uint64', 'SingleFloat', 'DoubleFloat']
RAWV = {True: [0, 1, 2, 5, -3, 40], False: [0, 1, 2, 5, 3, 40]}

LIN = {'type': 'Linear', 'slope': 0.5, 'intercept': 3.0}
LIN2 = {'type': 'Linear', 'slope': -2.0, 'intercept': 0.25}
POLY0 = {'type': 'Polynomial', 'coef': []}
POLY1 = {'type': 'Polynomial', 'coef': [2.0]}
POLY3 = {'type': 'Polynomial', 'coef': [1.0, 0.25, 0.125]}
POLY4NS = {'type': 'Polynomial', 'coef': [1.0, 0.5, 0.0, 0.125], 'size': False}
TABA = {'type': 'Table', 'pre': [10.0, 20.0, 40.0], 'scaled': [0.0, 2.0, 6.0]}
TABD = {'type': 'Table', 'pre': [40.0, 20.0, 10.0], 'scaled': [6.0, 2.0, 0.0]}
TAB2 = {'type': 'Table', 'pre': [-1.0, 1.0], 'scaled': [1.0, 4.0]}
LIN1 = {'type': 'Linear', 'slope': 1.0, 'intercept': 5.0}   # identity slope: a tempting place for an in-place shortcut
UNARY = [LIN, LIN1, POLY0, POLY1, POLY3, POLY4NS, TABA, TABD]
POLY12 = {'type': 'Polynomial', 'coef': [1.0, 0.5, -0.25, 0.125, 0.0, 0.01, -0.002, 3e-4, 4e-5, -5e-6, 6e-7, 7e-8]}
# tables whose OUTPUT column is not monotonic (only the input column has to be): out-of-range inputs clamp to the END-POINT value,
# which is then not an extremum of the column (raw values 0 / 0.5 and 40 / 40.5 lie outside, on both sides)
TABN = {'type': 'Table', 'pre': [5.0, 2.0, 4.0], 'scaled': [1.0, 2.0, 3.0]}
TABM = {'type': 'Table', 'pre': [3.0, 5.0, 2.0], 'scaled': [3.0, 2.0, 1.0]}
UNARY2 = [LIN2, {'type': 'Polynomial', 'coef': [-1.0, 0.0, 2.0]}, TAB2, POLY12, TABN, TABM]


def graphs(depth, first_set=None):
    """every list of `depth` scale specs with every wiring"""
    def options(i):
        out = []
        srcs_un = [None, R.RAW] + list(range(i))
        for u in (UNARY if (first_set is None or i) else first_set):
            for s in srcs_un:
                d = dict(u)
                d['src'] = s
                out.append(d)
        srcs_bin = [R.RAW] + list(range(i))
        for t in ('Add', 'Subtract'):
            for l in srcs_bin:
                for r in srcs_bin:
                    out.append({'type': t, 'left': l, 'right': r})
        return out
    for combo in itertools.product(*[options(i) for i in range(depth)]):
        yield list(combo)


def raw_values_for(t, n):
    signed = t.startswith('Int') or 'Float' in t
    vals = RAWV[signed]
    return [vals[j % len(vals)] for j in range(n)]


def custom_values_file(t, specs_props_channel, group_props=(), root_props=(), n=3, chunks=2, chan=None):
    """history whose channel A carries chosen small raw values (the encoder deals pool values, so the raw floats
    are read back from the reference interpretation instead of being chosen here)"""
    return [G.seg([('/', ['NODATA'], list(root_props)), ("/'g'", ['NODATA'], list(group_props)),
                   (chan or A, ['FULL', t, n], list(specs_props_channel)), (B, ['FULL', 'Int8', 1])], chunks=chunks)]


SMALL_POOL = {}


def _small_pool(t):
    """small-magnitude canonical values of type t (so integer Add cannot overflow)"""
    if t not in SMALL_POOL:
        fmt = G.TYPES[t][2]
        signed = fmt in 'bhiqfd'
        vals = RAWV[signed]
        SMALL_POOL[t] = [struct.pack('<' + fmt, (float(v) + 0.5 if fmt in 'fd' else v)) for v in vals]
    return SMALL_POOL[t]


def to_floats(t, vals):
    fmt = G.TYPES[t][2]
    return [float(struct.unpack('<' + fmt, v)[0]) for v in vals]


def tol_ok(got, exp, mag, eps):
    if exp != exp:
        return got != got
    return abs(got - exp) <= 8 * eps * max(1.0, mag)


def check_channel_file(hist, specs, t, seed, scalers_expected=None, opaque=False):
    """-> (n_checks, problems).  opaque: a sensor scaling whose values C17/C18 judge; here only the statement's structural clauses
    (elementwise = windows equal slices, lazy == eager, repeatable, raw data untouched) are decided"""
    # small raw values: swap the pool of this type for the duration of the encoding
    saved = G.POOLS.get(t)
    if t in G.POOLS:
        G.POOLS[t] = _small_pool(t)
    try:
        data, _i, _l, ref = G.encode(hist, seed=seed, ref=G.interpret(hist, seed=seed, lenient=True, filler_phase=seed))
    finally:
        if saved is not None:
            G.POOLS[t] = saved
    probs = []
    n = 0
    if specs is None:
        exp = None
    elif opaque:
        exp = 'opaque'
    else:
        if scalers_expected is not None:
            sc = {sid: [float(int.from_bytes(v, 'little', signed=True)) for v in ref.scaler_values[A][sid]] for sid in scalers_expected}
            rawf = None
        else:
            sc = None
            rawf = to_floats(t, ref.values[[p_ for p_ in ref.order if H._is_channel(p_) and p_ != B][0]])
        memo_mag = [1.0]

        def run_eval():
            memo = {}
            out = R.evaluate(specs, rawf, sc)
            return out
        exp = R.evaluate(specs, rawf, sc)
        # magnitude of intermediates for the tolerance
        mags = [abs(x) for x in (rawf or [])] + [abs(x) for v in (sc or {}).values() for x in v]
        inter = list(rawf or [])
        for i in range(len(specs)):
            if specs[i] is not None:
                try:
                    vals_i = [x for x in R.evaluate(specs[:i + 1], rawf, sc) if x == x and abs(x) != float('inf')]
                    mags += [abs(x) for x in vals_i]
                    inter += vals_i
                except Exception:
                    pass
        memo_mag[0] = max(mags + [1.0])
    r = H.guarded(lambda: H.TdmsFile.read(io.BytesIO(data)))
    if r[0] != 'ok':
        return 1, [('raised', 'eager read raised %s: %s' % (r[1], r[2]))]
    ech = [c for c in r[1]['g'].channels() if c.path != B][0]
    target = ech.path
    # integer indices on a channel object nothing else has been asked of yet: the errors of C04 hold for scaled channels as well
    L0 = len(ech)
    for i in (L0, L0 + 1, -L0 - 1, -L0 - 2, -2 * L0, -2 * L0 - 1):
        ri = H.guarded(ech.__getitem__, i)
        n += 1
        if not (ri[0] == 'raised' and ri[1] == 'IndexError'):
            probs.append(('index-bounds', 'index %d on a fresh eager channel of %d scaled values: %r instead of IndexError' % (i, L0, ri[:2])))
            break
    raw_before = _rawbytes(ech)
    r = H.guarded(lambda: ech[:])
    n += 1
    if r[0] != 'ok':
        return n, [('raised', 'channel[:] raised %s: %s' % (r[1], r[2]))]
    full = r[1]
    if opaque:
        if H.norm_array(full) == H.norm_array(ech.read_data(scaled=False)):
            probs.append(('not-scaled', 'a sensor scaling is in scope but the data equals the raw data'))
    elif exp is None:
        # unscaled expected: channel data equals the raw data
        if H.norm_array(full) != H.norm_array(ech.read_data(scaled=False)):
            probs.append(('scaled-although-marked-scaled', 'data differs from raw data although no scaling is in scope'))
    else:
        if len(full) != len(exp):
            probs.append(('length', 'scaled length %d expected %d' % (len(full), len(exp))))
        else:
            eps = np.finfo(full.dtype).eps if full.dtype.kind == 'f' else 0.0
            if t in G.TYPES and G.TYPES[t][2] in 'bhiqBHIQ' and scalers_expected is None:
                # integer Add/Subtract nodes wrap around in the raw dtype: outside the statement, skip the value judgement
                info = np.iinfo(np.dtype(G.NPTYPE[t]))
                intnode = {}

                def is_int(src):
                    if src == R.RAW:
                        return True
                    if src not in intnode:
                        sp = specs[src]
                        intnode[src] = sp['type'] in ('Add', 'Subtract') and is_int(sp['left']) and is_int(sp['right'])
                    return intnode[src]
                for i in range(len(specs)):
                    if is_int(i):
                        vals_i = R.evaluate(specs[:i + 1], rawf, sc)
                        if min(vals_i) < info.min or max(vals_i) > info.max:
                            exp = []
                            break
            for j, e in enumerate(exp):
                g = float(full[j])
                if not tol_ok(g, e, memo_mag[0], eps if eps else 1e-18):
                    probs.append(('value', 'element %d: got %r expected %r (dtype %s)' % (j, g, e, full.dtype)))
                    break
    # purity: raw data untouched by scaled accesses, and repeated scaling gives the same result
    for acc in (lambda: ech[:], lambda: ech.data, lambda: ech[1:3], lambda: ech.read_data(1, 2), lambda: ech[0]):
        H.guarded(acc)
        n += 1
    if _rawbytes(ech) != raw_before:
        probs.append(('raw-data-modified', 'raw data changed after scaled accesses'))
    r2 = H.guarded(lambda: ech.read_data())
    if r2[0] == 'ok' and H.norm_array(r2[1]) != H.norm_array(full):
        probs.append(('not-repeatable', 'a second scaled read differs from the first'))
    # lazy == eager, windows, chunks
    r = H.guarded(lambda: H.TdmsFile.open(io.BytesIO(data)))
    if r[0] != 'ok':
        probs.append(('raised', 'open raised %s' % r[1]))
        return n, probs
    tf = r[1]
    try:
        lch = [c for c in tf['g'].channels() if c.path != B][0]
        L = len(lch)
        fulln = H.norm_array(full)
        rr = H.guarded(lambda: H.norm_array(lch[:]))
        n += 1
        if rr[0] != 'ok' or rr[1] != fulln:
            probs.append(('lazy-differs', 'lazy channel[:] %r != eager' % (rr[1] if rr[0] == 'ok' else rr,)))
        for off in range(L + 1):
            for ln in range(0, L - off + 1):
                n += 1
                rr = H.guarded(lambda: lch.read_data(off, ln))
                expw = full[off:off + ln]
                if rr[0] != 'ok' or H.norm_array(rr[1])[1:] != H.norm_array(expw)[1:]:
                    probs.append(('window', 'read_data(%d,%d) differs from the slice of the scaled data' % (off, ln)))
                    break
        # results the caller keeps must not change when further windows of the same length are read (lazy and eager)
        for who, c_ in (('lazy', lch), ('eager', ech)):
            kept = []
            for off in range(0, max(L - 1, 0), 2):
                rr = H.guarded(lambda: c_.read_data(off, 2))
                n += 1
                if rr[0] == 'ok':
                    kept.append((off, rr[1], H.norm_array(rr[1])))
            kept += [(None, c[:], H.norm_array(c[:])) for c in (lch.data_chunks() if who == 'lazy' else [])]
            for off, arr, n0 in kept:
                if H.norm_array(arr) != n0:
                    probs.append(('kept-result-changed', '%s: a window read earlier (offset %r) changed after later reads of the same length' % (who, off)))
                    break
                if off is not None and H.norm_array(arr)[1:] != H.norm_array(full[off:off + 2])[1:]:
                    probs.append(('window', '%s: read_data(%d,2) differs from the slice of the scaled data' % (who, off)))
                    break
        parts = []
        for c in lch.data_chunks():
            a1 = H.guarded(lambda: H.norm_array(c[:]))
            a2 = H.guarded(lambda: H.norm_array(c[:]))
            n += 1
            if a1 != a2:
                probs.append(('raw-data-modified', 'scaling the same chunk twice gives different results'))
            if a1[0] == 'ok':
                parts.append(a1[1][2])
        if b''.join(parts) != fulln[2]:
            probs.append(('chunks', 'concatenated scaled chunks differ from the scaled data'))
    finally:
        tf.close()
    return n, probs[:3]


def _rawbytes(ch):
    d = ch.read_data(scaled=False)
    if isinstance(d, dict):
        return tuple(sorted((int(k), v.tobytes()) for k, v in d.items()))
    return np.asarray(d).tobytes()


def _worker(item):
    kind, payload, seed = item
    res = {'counters': {'files': 0, 'checks': 0, 'nontrivial': 0}, 'outcomes': {}, 'violations': [], 'samples': []}

    def record(case, specs, n, probs):
        res['counters']['files'] += 1
        res['counters']['checks'] += n
        res['counters']['nontrivial'] += 1 if specs else 0
        oc = 'equal' if not probs else probs[0][0]
        res['outcomes'][oc] = res['outcomes'].get(oc, 0) + 1
        for k, msg in probs[:1]:
            if len(res['violations']) < 15:
                types = [s['type'] if s else 'scaler' for s in (specs or [])]
                res['violations'].append({'case': case, 'expected': 'dataflow evaluation of the NI_Scale definitions', 'observed': msg,
                                          'signature': {'kind': k, 'scale_types': types, 'raw': case.get('raw'), 'part': case['part']}})
    if kind == 'graphs':
        t, glist = payload
        for specs in glist:
            hist = custom_values_file(t, R.props_for(specs))
            n, probs = check_channel_file(hist, specs, t, seed)
            record({'part': 'graph', 'raw': t, 'specs': specs, 'seed': seed}, specs, n, probs)
            if not res['samples'] and len(specs) > 1:
                res['samples'].append({'raw': t, 'specs': specs})
    elif kind == 'placement':
        for combo in payload:
            for late, chan in ((False, None), (True, None), (False, ODD)):
                hist, expect_specs = placement_file(combo, late, chan)
                n, probs = check_channel_file(hist, expect_specs, 'Int16', seed)
                record({'part': 'placement', 'raw': 'Int16', 'combo': combo, 'late': late, 'odd_name': bool(chan), 'seed': seed}, expect_specs, n, probs)
    elif kind == 'deep':
        for specs, with_number in payload:
            for t in ('Int16', 'DoubleFloat'):
                hist = custom_values_file(t, R.props_for(specs, number_of_scales=with_number))
                n, probs = check_channel_file(hist, specs, t, seed)
                record({'part': 'deep', 'raw': t, 'depth': len(specs), 'with_number': with_number, 'seed': seed}, specs, n, probs)
    elif kind == 'opaque':
        for ci in payload:
            name, hist = opaque_cases()[ci]
            n, probs = check_channel_file(hist, [{'type': name.split('/')[0]}], 'opaque', seed, opaque=True)
            record({'part': 'opaque', 'raw': name.split('/')[-1], 'case': ci, 'name': name, 'seed': seed}, [{'type': name.split('/')[0]}], n, probs)
    elif kind == 'daqmx':
        # raw scalers need not occupy the leading scale indices: ids 0 and 2, a typed scale 1 between them
        for specs in ([None, dict(LIN, src=0), None, {'type': 'Add', 'left': 1, 'right': 2}],
                      [None, dict(LIN, src=0), None, {'type': 'Subtract', 'left': 2, 'right': 1}],
                      [None, dict(POLY3, src=0), None]):
            props = R.props_for(specs)
            enc = F.daqmx_enc(3, [(3, 0, 0, 0, 0), (5, 0, 2, 0, 2)], [8])
            hist = [G.seg([(A, enc, props), (B, F.daqmx_enc(3, [(1, 0, 7, 0, 0)], [8]), [F._uprop('NI_Number_Of_Scales', 1)])], chunks=2)]
            n_, probs_ = check_channel_file(hist, specs, 'daqmx', seed, scalers_expected=[0, 2])
            record({'part': 'daqmx-gap', 'raw': 'daqmx', 'specs': specs, 'seed': seed}, specs, n_, probs_)
        for specs in payload:
            # without NI_Number_Of_Scales the count is the highest defined index + 1; the raw scalers themselves define no
            # NI_Scale[i] properties, so the defined indices start above 0
            for with_number in (True, False):
                props = R.props_for(specs, number_of_scales=with_number)
                enc = F.daqmx_enc(3, [(3, 0, 0, 0, 0), (5, 0, 2, 0, 1)], [8])
                hist = [G.seg([(A, enc, props), (B, F.daqmx_enc(3, [(1, 0, 7, 0, 0)], [8]), [F._uprop('NI_Number_Of_Scales', 1)])], chunks=2)]
                n, probs = check_channel_file(hist, specs, 'daqmx', seed, scalers_expected=[0, 1])
                record({'part': 'daqmx', 'raw': 'daqmx', 'specs': specs, 'with_number': with_number, 'seed': seed}, specs, n, probs)
    return res


_OPAQUE = []


def _hexvals(t, vals):
    fmt = G.TYPES[t][2]
    out = []
    for v in vals:
        if fmt in 'fd':
            out.append(struct.pack('<' + fmt, v).hex())
        else:
            out.append(struct.pack('<' + fmt, 0 if v != v else int(v)).hex())
    return out


def opaque_cases():
    """sensor scalings (thermocouple both directions and all types, RTD, thermistor, strain) on float and integer raw data whose
    six values fall into different pieces of the piecewise functions; float data carries one NaN sample (thermocouples only: the
    conversion is total) - scaling any window must equal the window of the scaled data"""
    if _OPAQUE:
        return _OPAQUE
    nan = float('nan')
    codes = {'B': 10047, 'E': 10055, 'J': 10072, 'K': 10073, 'N': 10077, 'R': 10082, 'S': 10085, 'T': 10086}
    one = [F._uprop('NI_Number_Of_Scales', 1)]
    for letter, code in sorted(codes.items()):
        for direction in (0, 1):
            for t in ('DoubleFloat', 'SingleFloat', 'Int16'):
                for nanpos in ((1, 4, None) if t != 'Int16' else (None,)):
                    vals = [-3000.0, 300.0, 1000.0, 20000.0, 5000.0, 12000.0] if direction == 0 else [-100.0, 20.0, 0.0, 100.0, 700.0, 1200.0]
                    if nanpos is not None:
                        vals[nanpos] = nan
                    hist = [G.seg([(A, ['FULL', t, 3, _hexvals(t, vals)], one + F.thermocouple_props(0, code, direction)),
                                   (B, ['FULL', 'Int8', 1])], chunks=2)]
                    _OPAQUE.append(('Thermocouple/%s/dir%d/nan%s/%s' % (letter, direction, nanpos, t), hist))
    for t in ('DoubleFloat', 'SingleFloat'):
        vals = [0.11, 0.12, 0.09, 0.13, 0.08, 0.14]
        _OPAQUE.append(('RTD/%s' % t, [G.seg([(A, ['FULL', t, 3, _hexvals(t, vals)], one + F.rtd_props(0)), (B, ['FULL', 'Int8', 1])], chunks=2)]))
        pre = 'NI_Scale[0]_Thermistor_'
        for exc, val in ((10322, 2.5), (10134, 1e-4)):
            th = one + [F._sprop('NI_Scale[0]_Scale_Type', 'Thermistor'), F._uprop(pre + 'Excitation_Type', exc), F._dprop(pre + 'Excitation_Value', val),
                        F._uprop(pre + 'Resistance_Configuration', 3), F._dprop(pre + 'R1_Reference_Resistance', 5000.0),
                        F._dprop(pre + 'Lead_Wire_Resistance', 10.0), F._dprop(pre + 'A', 1.295361e-3), F._dprop(pre + 'B', 2.343159e-4),
                        F._dprop(pre + 'C', 1.018703e-7), F._dprop(pre + 'Temperature_Offset', 273.15), F._uprop(pre + 'Input_Source', 0xFFFFFFFF)]
            vals = [1.0, 0.5, 1.5, 0.8, 2.0, 0.3] if exc == 10322 else [0.5, 0.4, 0.9, 0.2, 1.0, 0.7]
            _OPAQUE.append(('Thermistor/%d/%s' % (exc, t), [G.seg([(A, ['FULL', t, 3, _hexvals(t, vals)], th), (B, ['FULL', 'Int8', 1])], chunks=2)]))
        pre = 'NI_Scale[0]_Strain_'
        for cfg in (10183, 10184, 10185, 10188, 10189, 10271, 10272):
            for vinit in (0.0, 0.001):
                st = one + [F._sprop('NI_Scale[0]_Scale_Type', 'Strain'), F._uprop(pre + 'Configuration', cfg), F._dprop(pre + 'Poisson_Ratio', 0.3),
                            F._dprop(pre + 'Gage_Resistance', 350.0), F._dprop(pre + 'Lead_Wire_Resistance', 2.0),
                            F._dprop(pre + 'Initial_Bridge_Voltage', vinit), F._dprop(pre + 'Gage_Factor', 2.1),
                            F._dprop(pre + 'Bridge_Shunt_Calibration_Gain_Adjustment', 1.05), F._dprop(pre + 'Voltage_Excitation', 2.5),
                            F._uprop(pre + 'Input_Source', 0xFFFFFFFF)]
                vals = [0.001, -0.002, 0.0, 0.004, -0.001, 0.003]
                _OPAQUE.append(('Strain/%d/%g/%s' % (cfg, vinit, t), [G.seg([(A, ['FULL', t, 3, _hexvals(t, vals)], st), (B, ['FULL', 'Int8', 1])], chunks=2)]))
    return _OPAQUE


PLACE_OPTS = ['none', 'G1', 'G2', 'G1-scaled', 'G1-unscaled', 'G2-zero', 'G1-nonum', 'G2-one']
PG = {'G1': [dict(LIN, src=None)], 'G2': [dict(POLY3, src=R.RAW), {'type': 'Add', 'left': 0, 'right': R.RAW}]}


ODD = "/'g'/'x/y''z'"   # a channel name with a slash and a quote


def placement_file(combo, late=False, chan=None):
    """combo = (channel option, group option, root option) -> (history, specs expected to apply | None)"""
    levels = []
    expect = None
    for opt in combo:
        if opt == 'none':
            levels.append([])
            continue
        g = PG[opt.split('-')[0]]
        status = 'scaled' if opt.endswith('-scaled') else ('unscaled' if opt.endswith('-unscaled') else None)
        if opt.endswith('-zero'):
            props = R.props_for(g, number_of_scales=False) + [R._u('NI_Number_Of_Scales', 0)]
            applies = False
        elif opt.endswith('-one'):
            # both definitions are present but the count says one: scale 0 is the last scale, the second definition is unused
            props = R.props_for(g, number_of_scales=False) + [R._u('NI_Number_Of_Scales', 1)]
            g = g[:1]
            applies = True
        else:
            props = R.props_for(g, number_of_scales=not opt.endswith('-nonum'), status=status)
            applies = status != 'scaled'
        levels.append(props)
        if applies and expect is None:
            expect = g
    if late:
        # the channel (with its own properties) comes first; the group and root objects only appear in a later, appended segment
        hist = [G.seg([(chan or A, ['FULL', 'Int16', 3], list(levels[0])), (B, ['FULL', 'Int8', 1])], chunks=2),
                G.seg([("/'g'", ['NODATA'], list(levels[1])), ('/', ['NODATA'], list(levels[2]))], newlist=False)]
    else:
        hist = custom_values_file('Int16', levels[0], levels[1], levels[2], chan=chan)
    return hist, expect


def run(ctx):
    from ..run import merge
    items = []
    depth_max = 2 if ctx.tier == 'quick' else 3
    for t in NUMERIC:
        gl = list(graphs(1)) + list(graphs(1, first_set=UNARY2))
        gl += list(graphs(2))
        for i in range(0, len(gl), 60):
            items.append(('graphs', (t, gl[i:i + 60]), ctx.seed))
    if depth_max >= 3:
        g3 = list(graphs(3))
        for ti, t in enumerate(NUMERIC):
            mine = g3 if t in ('Int16', 'DoubleFloat', 'SingleFloat') else g3[ti::10]
            for i in range(0, len(mine), 80):
                items.append(('graphs', (t, mine[i:i + 80]), ctx.seed))
    # diamonds (both tiers): a scale that feeds a unary scale AND is read again by a later Add / Subtract / unary scale - the shape
    # in which "reuse the upstream buffer" optimisations go wrong; depth 3 and 4, every first scale, four middle scales
    dia = []
    for u0 in UNARY:
        for u1 in (LIN, LIN1, POLY3, TABA, LIN2):
            base = [dict(u0, src=R.RAW), dict(u1, src=0)]
            for t_ in ('Add', 'Subtract'):
                for l_, r_ in ((0, 1), (1, 0), (0, 0), (1, 1)):
                    dia.append(base + [{'type': t_, 'left': l_, 'right': r_}])
            dia.append(base + [dict(LIN, src=0), {'type': 'Subtract', 'left': 1, 'right': 2}])
            dia.append(base + [dict(LIN1, src=1), {'type': 'Add', 'left': 0, 'right': 2}])
    for t in NUMERIC:
        for i in range(0, len(dia), 100):
            items.append(('graphs', (t, dia[i:i + 100]), ctx.seed))
    combos = list(itertools.product(PLACE_OPTS, repeat=3))
    for i in range(0, len(combos), 40):
        items.append(('placement', combos[i:i + 40], ctx.seed))
    dq = []
    for x in (dict(LIN, src=0), dict(LIN, src=1), {'type': 'Add', 'left': 0, 'right': 1}, {'type': 'Subtract', 'left': 0, 'right': 1},
              dict(POLY3, src=1), dict(TABA, src=0), {'type': 'Subtract', 'left': 1, 'right': 1}):
        dq.append([None, None, x])
        for y in (dict(LIN2, src=2), {'type': 'Add', 'left': 0, 'right': 2}, {'type': 'Subtract', 'left': 2, 'right': 1}, dict(TABD, src=2)):
            dq.append([None, None, x, y])
    items.append(('daqmx', dq, ctx.seed))
    # deep chains (scale i reads scale i-1), with and without NI_Number_Of_Scales: the scale count must be inferred numerically
    deep = []
    for k in (9, 10, 11, 12, 21):
        chain = [dict(LIN1 if i % 2 else LIN, src=(None if i == 0 else i - 1)) for i in range(k)]
        deep.append((chain, True))
        deep.append((chain, False))
    items.append(('deep', deep, ctx.seed))
    nop = len(opaque_cases())
    for i in range(0, nop, 12):
        items.append(('opaque', list(range(i, min(nop, i + 12))), ctx.seed))
    m = merge(ctx.map(_worker, items))
    c = m['counters']
    cov = {'evaluations': c['checks'], 'files': c['files'], 'distinct_nontrivial': c['nontrivial'],
           'rule': 'distinct files = (scale graph with wiring, raw type) / placement combination / DAQmx graph; non-trivial = a scaling '
                   'is expected to apply; evaluations = scaled reads compared (full, windows, chunks, purity probes)',
           'graph_depth': depth_max, 'placement_combinations': len(combos), 'daqmx_graphs': len(dq),
           'outcomes': m['outcomes'], 'samples': m['samples'][:3], 'exhaustive': True,
           'vacuity_failures': [] if c['nontrivial'] > 100 else ['too few scaled files']}
    return cov, m['violations']


def replay(case):
    if case['part'] == 'graph':
        hist = custom_values_file(case['raw'], R.props_for(case['specs']))
        n, probs = check_channel_file(hist, case['specs'], case['raw'], case.get('seed', 0))
    elif case['part'] == 'deep':
        k = case['depth']
        specs = [dict(LIN1 if i % 2 else LIN, src=(None if i == 0 else i - 1)) for i in range(k)]
        hist = custom_values_file(case['raw'], R.props_for(specs, number_of_scales=case['with_number']))
        n, probs = check_channel_file(hist, specs, case['raw'], case.get('seed', 0))
    elif case['part'] == 'opaque':
        name, hist = opaque_cases()[case['case']]
        n, probs = check_channel_file(hist, [{'type': name.split('/')[0]}], 'opaque', case.get('seed', 0), opaque=True)
    elif case['part'] == 'placement':
        hist, expect = placement_file(tuple(case['combo']), case.get('late', False), ODD if case.get('odd_name') else None)
        n, probs = check_channel_file(hist, expect, 'Int16', case.get('seed', 0))
    elif case['part'] == 'daqmx-gap':
        specs = case['specs']
        enc = F.daqmx_enc(3, [(3, 0, 0, 0, 0), (5, 0, 2, 0, 2)], [8])
        hist = [G.seg([(A, enc, R.props_for(specs)), (B, F.daqmx_enc(3, [(1, 0, 7, 0, 0)], [8]), [F._uprop('NI_Number_Of_Scales', 1)])], chunks=2)]
        n, probs = check_channel_file(hist, specs, 'daqmx', case.get('seed', 0), scalers_expected=[0, 2])
    else:
        specs = case['specs']
        enc = F.daqmx_enc(3, [(3, 0, 0, 0, 0), (5, 0, 2, 0, 1)], [8])
        hist = [G.seg([(A, enc, R.props_for(specs, number_of_scales=case.get('with_number', True))),
                       (B, F.daqmx_enc(3, [(1, 0, 7, 0, 0)], [8]), [F._uprop('NI_Number_Of_Scales', 1)])], chunks=2)]
        n, probs = check_channel_file(hist, specs, 'daqmx', case.get('seed', 0), scalers_expected=[0, 1])
    if probs:
        return True, 'dataflow evaluation', probs[0][1]
    return False, 'equal', 'equal'
