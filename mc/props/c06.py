"""C06 - A file cut short by a crash reads as a prefix of the complete file.   (fault enumeration)

Every file of family F6 is cut at EVERY byte offset from 4 to its length (and again with the
'length unknown' marker in the last lead-in where the statement covers it) and read eagerly and lazily.
"""
import io

from .. import tdmsgen as G
from .. import harness as H
from .. import families as F

ID = 'C06'
LEVEL = 'fault_enumeration'
TECHNIQUE = 'exhaustive crash-point enumeration: every cut offset of every file of a finite family, real reader vs prefix oracle from an independent layout map'
LEVEL_TEXT = ('For each file of the family (contiguous / interleaved / DAQmx with 1-2 buffers; 1-3 segments incl. metadata-less '
              'and inherited encodings; 1-3 chunks; fixed-width, timestamp, string, complex; both byte orders) every cut offset '
              '4..len is applied, with explicit next-segment offset and with the 0xFFFFFFFFFFFFFFFF marker, and the truncated '
              'bytes are read eagerly and lazily. Plus: two-chunk files of every chunk length 4..128 (both layouts), every cut of the '
              'raw data.')
LEVEL_NOTE = ('Oracle from the independent layout map: no exception; each channel is a bit-exact prefix of its complete values and '
              'holds at least all values of segments ending at or before the cut; len(channel) = values returned; lazy = eager; '
              'incomplete_final_segment iff data_start < cut < segment_end (cut == data_start is a do not care; with the marker only '
              'under-reporting is judged).')
ASSUMPTIONS = ['dtype of empty results is not compared between lazy and eager (C14)', 'marker variant applied only to shapes the statement names: fixed-width types, strings in single-chunk segments']


def observe_cut(data, lazy):
    def run():
        stream = io.BytesIO(data)
        tf = H.TdmsFile.open(stream, raw_timestamps=True) if lazy else H.TdmsFile.read(stream, raw_timestamps=True)
        try:
            out = {}
            for g in tf.groups():
                for ch in g.channels():
                    if ch.scaler_data_types:
                        d = ch.read_data(scaled=False)
                        val = ('scalers', {int(k): H.norm_array(v) for k, v in d.items()}) if isinstance(d, dict) \
                            else H.norm_array(d)
                    else:
                        val = H.norm_array(ch[:])
                    out[ch.path] = (len(ch), val)
            st = tf.file_status
            return out, bool(st.incomplete_final_segment)
        finally:
            if lazy:
                tf.close()
    return H.guarded(run)


def _nodtype_if_empty(o):
    chans, st = o
    out = {}
    for p, (ln, val) in chans.items():
        if val[0] == 'scalers':
            out[p] = (ln, ('scalers', {k: (v if v[1] else (None, 0, b'')) for k, v in val[1].items()}))
        else:
            out[p] = (ln, val if val[1] else (None, 0, b''))
    return out, st


def judge(obs, ref, layout, cut, marker):
    """-> None or (kind, message)"""
    chans, incomplete = obs
    whole = [si for si, s in enumerate(layout) if s['end'] <= cut]
    for path, (ln, val) in chans.items():
        if path not in ref.props:
            return ('invented-object', 'channel %s does not exist in the complete file' % path)
        t = ref.dtype.get(path)
        need = sum(ref.seg_counts[si].get(path, 0) for si in whole)
        if isinstance(t, tuple):
            sv = ref.scaler_values.get(path, {})
            items = list(val[1].items()) if val[0] == 'scalers' else [(t[2][0][0], val)]
            for sid, arr in items:
                full = sv.get(sid, [])
                n = arr[1]
                if n != ln:
                    return ('len-mismatch', '%s scaler %s: len(channel)=%d but %d values returned' % (path, sid, ln, n))
                if b''.join(full[:n]) != arr[2] or n > len(full):
                    return ('not-a-prefix', '%s scaler %s: %d values are not a prefix of the complete values' % (path, sid, n))
                if n < need:
                    return ('lost-values', '%s: %d values but %d lie in segments wholly before the cut' % (path, n, need))
            continue
        full = ref.values.get(path, [])
        n = val[1]
        if n != ln:
            return ('len-mismatch', '%s: len(channel)=%d but %d values returned' % (path, ln, n))
        if n > len(full):
            return ('not-a-prefix', '%s: %d values returned, complete file has %d' % (path, n, len(full)))
        if t == 'String':
            if tuple(full[:n]) != tuple(val[2]):
                return ('not-a-prefix', '%s: strings are not a prefix: %r' % (path, val[2][:4]))
        elif n and b''.join(full[:n]) != val[2]:
            return ('not-a-prefix', '%s: %d values are not a prefix of the complete values' % (path, n))
        if n < need:
            return ('lost-values', '%s: %d values but %d lie in segments wholly before the cut' % (path, n, need))
    for path in ref.order:
        if H._is_channel(path) and path not in chans:
            if sum(ref.seg_counts[si].get(path, 0) for si in whole) > 0:
                return ('lost-values', 'channel %s missing although a whole segment with its data precedes the cut' % path)
    inside = any(s['data_start'] < cut < s['end'] for s in layout)
    boundary = any(s['data_start'] == cut for s in layout)
    if not boundary:
        if inside and not incomplete:
            return ('status', 'cut inside raw data but incomplete_final_segment is False')
        if not inside and incomplete and not marker:
            return ('status', 'incomplete_final_segment is True but the cut is not inside raw data')
    return None


def run_file(item):
    name, hist, seed, marker = item[:4]
    data_only = len(item) > 4 and item[4]
    if marker:
        hist = [dict(s) for s in hist]
        hist[-1]['marker'] = True
    data, _i, layout, ref = G.encode(hist, seed=seed)
    res = {'counters': {'files': 1, 'cuts': 0, 'nontrivial': 0, 'cuts_in_data': 0}, 'outcomes': {}, 'violations': [],
           'samples': [], 'distinct': set()}
    reported = set()
    for cut in range(layout[-1]['data_start'] if data_only else 4, len(data) + 1):
        d = data[:cut]
        res['counters']['cuts'] += 1
        inside = any(s['data_start'] < cut < s['end'] for s in layout)
        if inside:
            res['counters']['cuts_in_data'] += 1
        if cut < len(data):
            res['counters']['nontrivial'] += 1
        bad = None
        oe = observe_cut(d, False)
        ol = observe_cut(d, True)
        for mode, o in (('eager', oe), ('lazy', ol)):
            if o[0] != 'ok':
                bad = ('raised', mode, 'raised %s: %s' % (o[1], o[2]))
                break
            why = judge(o[1], ref, layout, cut, marker)
            if why:
                bad = (why[0], mode, why[1])
                break
        if bad is None and _nodtype_if_empty(oe[1]) != _nodtype_if_empty(ol[1]):
            bad = ('lazy-differs', 'lazy', 'lazy and eager reads of the truncated file differ')
        oc = 'prefix' if bad is None else bad[0]
        res['outcomes'][oc] = res['outcomes'].get(oc, 0) + 1
        if bad is not None:
            ci = None
            for s in layout:
                if s['data_start'] <= cut <= s['end'] and s['chunk_size']:
                    ci = (cut - s['data_start']) // s['chunk_size']
            sig = {'kind': bad[0], 'mode': bad[1], 'layout': name.split('/')[1] if not name.startswith('daqmx') else 'daqmx',
                   'elems': name.split('/')[0], 'marker': marker, 'cut_in_chunk': 'first' if ci == 0 else ('later' if ci else None)}
            k = repr(sorted(sig.items()))
            if k not in reported and len(res['violations']) < 12:
                reported.add(k)
                res['violations'].append({'case': {'file': name, 'history': hist, 'seed': seed, 'cut': cut, 'marker': marker},
                                          'expected': 'prefix of the complete file, no error', 'observed': bad[2], 'signature': sig})
            elif k in reported:
                res['violations'].append({'case': {'file': name, 'cut': cut, 'history': hist, 'seed': seed, 'marker': marker,
                                                   'pad': 'x' * 4000}, 'expected': '', 'observed': bad[2], 'signature': sig})
    res['samples'].append({'file': name, 'marker': marker, 'bytes': len(data), 'cuts': len(data) - 3,
                           'history': G.describe(hist)})
    return res


def marker_ok(name, hist):
    """The statement covers the marker for fixed-width types and for strings in single-chunk segments."""
    last = hist[-1]
    has_string = 'str' in name.split('/')[0].lower()
    return (not has_string) or last.get('chunks', 1) == 1


def run(ctx):
    from ..run import merge
    fl = F.f6_files(ctx.tier)
    items = [(n, h, ctx.seed, False) for n, h in fl] + [(n, h, ctx.seed, True) for n, h in fl if marker_ok(n, h)]
    # chunks of every length 4..128 (interleaved rows of 6 bytes; contiguous Int16 + Int32), cut at every byte of the raw data:
    # how many values of a cut chunk survive is a proportion, and proportions computed inexactly go wrong for particular lengths
    for n in range(4, 129):
        for il in (True, False):
            h = [F.G.seg([(F.B, ['FULL', 'Int16', n]), (F.A, ['FULL', 'Int32', n])], chunks=2, interleaved=il)]
            for marker in (False, True):
                items.append(('int16+int32/%s-len%d' % ('interleaved' if il else 'contiguous', n), h, ctx.seed, marker, True))
    # raw data that looks like a segment start (tag, a plausible ToC / version, offsets that fit): a reader hunting for the next
    # lead-in inside an open-ended segment must not mistake it; every cut, with and without the marker
    import struct
    look = [0x6D534454, 0x0E, 4713, 0, 0, 0, 0, 7, 0x6D534454, 0x0E, 4712, 64, 0, 20, 0]
    hx = [struct.pack('<I', v).hex() for v in look]
    for big in (False, True):
        h = [F.G.seg([(F.A, ['FULL', 'Int32', 2]), (F.B, ['FULL', 'Int16', 1])], big=big),
             F.G.seg([(F.A, ['FULL', 'Uint32', len(look), hx if not big else [struct.pack('>I', v)[::-1][::-1].hex() for v in look]])], chunks=2, big=big)]
        h[0]['objects'][0]['enc'] = ['FULL', 'Uint32', 2]
        for marker in (False, True):
            items.append(('uint32/lookalike-%s' % ('BE' if big else 'LE'), h, ctx.seed, marker, True))
    m = merge(ctx.map(run_file, items))
    c = m['counters']
    vac = [] if c.get('cuts_in_data') else ['no cut fell inside raw data']
    cov = {'evaluations': c['cuts'] * 2, 'files': c['files'], 'cuts': c['cuts'], 'cuts_inside_raw_data': c['cuts_in_data'],
           'distinct_nontrivial': c['nontrivial'],
           'rule': 'one case = (file, marker variant, cut offset), all distinct by construction; non-trivial = cut strictly '
                   'shorter than the file; each case is read eagerly and lazily',
           'outcomes': m['outcomes'], 'samples': m['samples'][:5], 'exhaustive': True, 'vacuity_failures': vac}
    return cov, m['violations']


def replay(case):
    data, _i, layout, ref = G.encode(case['history'], seed=case.get('seed', 0))
    cut = case['cut']
    d = data[:cut]
    oe, ol = observe_cut(d, False), observe_cut(d, True)
    for mode, o in (('eager', oe), ('lazy', ol)):
        if o[0] != 'ok':
            return True, 'no error', '%s raised %s: %s' % (mode, o[1], o[2])
        why = judge(o[1], ref, layout, cut, case.get('marker', False))
        if why:
            return True, 'prefix', '%s: %s' % (mode, why[1])
    if _nodtype_if_empty(oe[1]) != _nodtype_if_empty(ol[1]):
        return True, 'lazy == eager', 'lazy and eager differ'
    return False, 'prefix', 'prefix'
