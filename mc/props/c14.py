"""C14 - channel.dtype and len(channel) describe what reads return.   (exploration)

every raw type (17) x scaling in {none, Linear, Polynomial, Table, Add, Subtract, RTD, Thermistor, Strain (7 bridge
types), Thermocouple (both directions), AdvancedAPI} (scalings on the real numeric types) x {eager, lazy} x
raw_timestamps {off, on} x channel length {0, 1, 6 over 2 chunks} x EVERY read operation (full, ellipsis, read_data,
.data, windows incl. empty and past-the-end, slices incl. empty / stepped / reversed, chunk objects incl. empty
slices of them, file-level chunks).  Reads that raise are not "successful reads" and are ignored.
"""
import io
import struct

import numpy as np

from .. import tdmsgen as G
from .. import harness as H
from .. import families as F
from .. import refscale as R

ID = 'C14'
LEVEL = 'exploration'
TECHNIQUE = 'complete product raw type x scale type x mode x length x read operation on the real code; oracle channel.dtype / len(channel)'
LEVEL_TEXT = ('The complete product of 17 raw types, 17 scaling configurations (on numeric types), eager/lazy, raw_timestamps on/off, '
              'three channel lengths and ~25 read operations is executed; every successful read must return an array of dtype '
              'channel.dtype (empty results included) and a full read must have len(channel) elements.')
LEVEL_NOTE = ('Self-consistency oracle (channel.dtype vs returned dtype): needs no reference values. With raw_timestamps=True the '
              'statement does not fix the dtype of timestamp channels; nothing is judged there except lengths.')
ASSUMPTIONS = ['complex / bool / string / timestamp data combined with a scale is outside the domain (NI scales act on real numeric data)']

A, B = F.A, F.B
NUMERIC = ['Int8', 'Int16', 'Int32', 'Int64', 'Uint8', 'Uint16', 'Uint32', 'Uint64', 'SingleFloat', 'DoubleFloat',
           'SingleFloatWithUnit', 'DoubleFloatWithUnit']


def sensor_props(kind):
    s, d, u = R._s, R._d, R._u
    p = [u('NI_Number_Of_Scales', 1)]
    pre = 'NI_Scale[0]_'
    if kind == 'RTD':
        p += [s(pre + 'Scale_Type', 'RTD'), d(pre + 'RTD_Current_Excitation', 0.001), d(pre + 'RTD_R0_Nominal_Resistance', 100.0),
              d(pre + 'RTD_A', 3.9083e-3), d(pre + 'RTD_B', -5.775e-7), d(pre + 'RTD_C', -4.183e-12),
              d(pre + 'RTD_Lead_Wire_Resistance', 0.0), u(pre + 'RTD_Resistance_Configuration', 3), u(pre + 'RTD_Input_Source', 0xFFFFFFFF)]
    elif kind == 'Thermistor':
        p += [s(pre + 'Scale_Type', 'Thermistor'), u(pre + 'Thermistor_Excitation_Type', 10134), d(pre + 'Thermistor_Excitation_Value', 1e-4),
              u(pre + 'Thermistor_Resistance_Configuration', 4), d(pre + 'Thermistor_R1_Reference_Resistance', 5000.0),
              d(pre + 'Thermistor_Lead_Wire_Resistance', 0.0), d(pre + 'Thermistor_A', 1.295e-3), d(pre + 'Thermistor_B', 2.344e-4),
              d(pre + 'Thermistor_C', 1.018e-7), d(pre + 'Thermistor_Temperature_Offset', 273.15), u(pre + 'Thermistor_Input_Source', 0xFFFFFFFF)]
    elif kind.startswith('Strain'):
        conf = int(kind.split(':')[1])
        p += [s(pre + 'Scale_Type', 'Strain'), u(pre + 'Strain_Configuration', conf), d(pre + 'Strain_Poisson_Ratio', 0.3),
              d(pre + 'Strain_Gage_Resistance', 350.0), d(pre + 'Strain_Lead_Wire_Resistance', 0.0),
              d(pre + 'Strain_Initial_Bridge_Voltage', 0.0), d(pre + 'Strain_Gage_Factor', 2.1),
              d(pre + 'Strain_Bridge_Shunt_Calibration_Gain_Adjustment', 1.0), d(pre + 'Strain_Voltage_Excitation', 2.5),
              u(pre + 'Strain_Input_Source', 0xFFFFFFFF)]
    elif kind.startswith('Thermocouple'):
        direction = int(kind.split(':')[1])
        p += [s(pre + 'Scale_Type', 'Thermocouple'), u(pre + 'Thermocouple_Thermocouple_Type', 10073),
              u(pre + 'Thermocouple_Scaling_Direction', direction), u(pre + 'Thermocouple_Input_Source', 0xFFFFFFFF)]
    elif kind == 'AdvancedAPI':
        p += [s(pre + 'Scale_Type', 'AdvancedAPI')]
    return p


SCALINGS = {
    'none': None,
    'Linear': R.props_for([{'type': 'Linear', 'slope': 0.5, 'intercept': 1.0, 'src': None}]),
    'Polynomial': R.props_for([{'type': 'Polynomial', 'coef': [1.0, 0.5, 0.25], 'src': None}]),
    'Table': R.props_for([{'type': 'Table', 'pre': [0.0, 10.0], 'scaled': [0.0, 100.0], 'src': None}]),
    'Add': R.props_for([{'type': 'Linear', 'slope': 2.0, 'intercept': 0.0, 'src': None}, {'type': 'Add', 'left': 0, 'right': R.RAW}]),
    'Subtract': R.props_for([{'type': 'Polynomial', 'coef': [1.0, 1.0], 'src': None}, {'type': 'Subtract', 'left': R.RAW, 'right': 0}]),
    'AddRawRaw': R.props_for([{'type': 'Add', 'left': R.RAW, 'right': R.RAW}]),
    'RTD': sensor_props('RTD'), 'Thermistor': sensor_props('Thermistor'),
    'Thermocouple:0': sensor_props('Thermocouple:0'), 'Thermocouple:1': sensor_props('Thermocouple:1'),
    'AdvancedAPI': sensor_props('AdvancedAPI'),
}
def _chain(first, second_kind):
    """scale 0 = `first` (keeps the raw precision), scale 1 = a double-producing scale reading scale 0"""
    s, d, u = R._s, R._d, R._u
    p = [u('NI_Number_Of_Scales', 2)]
    if first == 'NoOp':
        p += [s('NI_Scale[0]_Scale_Type', 'AdvancedAPI')]
    else:
        p += [s('NI_Scale[0]_Scale_Type', 'Add'), u('NI_Scale[0]_Add_Left_Operand_Input_Source', 0xFFFFFFFF),
              u('NI_Scale[0]_Add_Right_Operand_Input_Source', 0xFFFFFFFF)]
    if second_kind == 'Linear':
        p += [s('NI_Scale[1]_Scale_Type', 'Linear'), d('NI_Scale[1]_Linear_Slope', 0.5), d('NI_Scale[1]_Linear_Y_Intercept', 1.0),
              u('NI_Scale[1]_Linear_Input_Source', 0)]
    elif second_kind == 'Thermocouple':
        p += [s('NI_Scale[1]_Scale_Type', 'Thermocouple'), u('NI_Scale[1]_Thermocouple_Thermocouple_Type', 10073),
              u('NI_Scale[1]_Thermocouple_Scaling_Direction', 1), u('NI_Scale[1]_Thermocouple_Input_Source', 0)]
    elif second_kind == 'Polynomial':
        p += [s('NI_Scale[1]_Scale_Type', 'Polynomial'), u('NI_Scale[1]_Polynomial_Coefficients_Size', 2),
              d('NI_Scale[1]_Polynomial_Coefficients[0]', 1.0), d('NI_Scale[1]_Polynomial_Coefficients[1]', 2.0),
              u('NI_Scale[1]_Polynomial_Input_Source', 0)]
    return p


def _chain_rev(first_kind):
    """scale 0 = a double-producing scale, scale 1 = AdvancedAPI (no-op) reading scale 0: the output is what scale 0 produces"""
    s, d, u = R._s, R._d, R._u
    p = [u('NI_Number_Of_Scales', 2)]
    if first_kind == 'Linear':
        p += [s('NI_Scale[0]_Scale_Type', 'Linear'), d('NI_Scale[0]_Linear_Slope', 0.5), d('NI_Scale[0]_Linear_Y_Intercept', 1.25),
              u('NI_Scale[0]_Linear_Input_Source', 0xFFFFFFFF)]
    else:
        p += [s('NI_Scale[0]_Scale_Type', 'Polynomial'), u('NI_Scale[0]_Polynomial_Coefficients_Size', 2),
              d('NI_Scale[0]_Polynomial_Coefficients[0]', 1.0), d('NI_Scale[0]_Polynomial_Coefficients[1]', 2.0),
              u('NI_Scale[0]_Polynomial_Input_Source', 0xFFFFFFFF)]
    p += [s('NI_Scale[1]_Scale_Type', 'AdvancedAPI'), u('NI_Scale[1]_AdvancedAPI_Input_Source', 0)]
    return p


for _k in ('Linear', 'Polynomial'):
    SCALINGS['%s>NoOp' % _k] = _chain_rev(_k)
for _f in ('NoOp', 'AddRawRaw'):
    for _k in ('Linear', 'Thermocouple', 'Polynomial'):
        SCALINGS['%s>%s' % (_f, _k)] = _chain(_f, _k)
for _c in (10183, 10184, 10185, 10188, 10189, 10271, 10272):
    SCALINGS['Strain:%d' % _c] = sensor_props('Strain:%d' % _c)


DAQMX_SCALINGS = {
    'daqmx-subtract': R.props_for([None, None, {'type': 'Subtract', 'left': 0, 'right': 1}]),
    'daqmx-subtract-rev': R.props_for([None, None, {'type': 'Subtract', 'left': 1, 'right': 0}]),
    'daqmx-add': R.props_for([None, None, {'type': 'Add', 'left': 0, 'right': 1}]),
    'daqmx-scaler-only': R.props_for([None, None]),   # the channel's output is raw scaler 1 itself
    'daqmx-linear': R.props_for([None, None, {'type': 'Linear', 'slope': 2.0, 'intercept': 1.0, 'src': 1}]),
}


def dt_of(x):
    if isinstance(x, np.ndarray):
        return x.dtype
    return None


def ops_for(tf, ch, lazy, L):
    ops = [('full', lambda: ch[:]), ('ellipsis', lambda: ch[...]), ('read_data', lambda: ch.read_data()),
           ('window', lambda: ch.read_data(1, 2)), ('empty-window', lambda: ch.read_data(0, 0)),
           ('window-past-end', lambda: ch.read_data(L, 5)), ('window-at-end', lambda: ch.read_data(max(L - 1, 0), 5)),
           ('slice', lambda: ch[1:3]), ('empty-slice', lambda: ch[0:0]), ('reversed-empty', lambda: ch[5:2]),
           ('step-slice', lambda: ch[::2]), ('reverse-slice', lambda: ch[::-1]), ('neg-slice', lambda: ch[-2:]),
           ('out-of-range-slice', lambda: ch[L + 3:L + 9]),
           # reads that follow an integer index into the same chunk (what the index left behind must not change their type)
           ('slice-after-index', lambda: (ch[1], ch[0:2])[1]), ('window-after-index', lambda: (ch[1], ch.read_data(0, 2))[1]),
           ('step-slice-after-index', lambda: (ch[L - 1], ch[L - 1:L - 3:-1])[1])]
    if not lazy:
        ops.append(('data', lambda: ch.data))
    else:
        def chunks():
            return [c[:] for c in ch.data_chunks()]

        def empty_chunk_slices():
            return [c[0:0] for c in ch.data_chunks()]

        def file_chunks():
            return [dc[ch.group_name][ch.name][:] for dc in tf.data_chunks()]
        ops += [('chunks', chunks), ('empty-chunk-slices', empty_chunk_slices), ('file-chunks', file_chunks)]
    return ops


def check_file(t, sname, L, seed, big=False, il=False):
    """-> (n_reads, problems[(kind, op, mode, raw_ts, declared, actual)])"""
    props = SCALINGS.get(sname) or []
    n, chunks = (0, 1) if L == 0 else ((1, 1) if L == 1 else (3, 2))
    if t == 'DAQmx':
        enc = F.daqmx_enc(n, [(2, 0, 2, 0, 0), (2, 0, 6, 0, 1)], [8])   # two unsigned 16-bit scalers
        props = DAQMX_SCALINGS.get(sname) or F.DAQMX_SCALE_PROPS
        if n == 0:
            return 0, []
    else:
        tt = 'TimeStamp' if t == 'TimeStampWhole' else t
        enc = ['FULL', 'String', n, 2 * n + 1] if tt == 'String' else ['FULL', tt, n]
    comp = (B, F.daqmx_enc(n, [(1, 0, 0, 0, 0)], [8])) if t == 'DAQmx' else (B, ['FULL', 'Int8', n if il else 1])
    # second segment without the channel: file-level chunk streams must hand out an empty array of the channel's dtype for it
    hist = [G.seg([(A, enc, props), comp], chunks=chunks, big=big, interleaved=il), G.seg([comp], big=big, interleaved=il)]
    if t == 'TimeStampWhole':   # a log with one sample per second: every fraction is zero
        saved = G.POOLS['TimeStamp']
        G.POOLS['TimeStamp'] = [G._ts(3600000000 + k, 0) for k in range(7)]
        try:
            data = G.encode(hist, seed=seed)[0]
        finally:
            G.POOLS['TimeStamp'] = saved
    else:
        data = G.encode(hist, seed=seed)[0]
    probs = []
    reads = 0
    for lazy, raw_ts, memmap in [(l_, r_, m_) for l_ in (False, True) for r_ in (False, True) for m_ in (False, True)]:
        if True:
            if raw_ts and t not in ('TimeStamp', 'TimeStampWhole'):
                continue
            r = H.guarded(lambda: (H.TdmsFile.open if lazy else H.TdmsFile.read)(io.BytesIO(data), raw_timestamps=raw_ts,
                                                                                memmap_dir=_memmap_dir() if memmap else None))
            # the mode is reported as 'lazy' / 'eager' with '+memmap' appended
            lazy = ('lazy' if lazy else 'eager') + ('+memmap' if memmap else '')
            if r[0] != 'ok':
                probs.append(('open-raised', 'open', lazy, raw_ts, None, repr(r)))
                continue
            tf = r[1]
            try:
                ch = tf['g']['a']
                rd = H.guarded(lambda: ch.dtype)
                if rd[0] != 'ok':
                    probs.append(('dtype-raised', 'dtype', lazy, raw_ts, None, repr(rd)))
                    continue
                declared = rd[1]
                if len(ch) != n * chunks:
                    probs.append(('len', 'len', lazy, raw_ts, n * chunks, len(ch)))
                nonempty_dtypes = set()
                for name, op in ops_for(tf, ch, lazy.startswith('lazy'), n * chunks):
                    rr = H.guarded(op)
                    reads += 1
                    if rr[0] != 'ok':
                        continue
                    results = rr[1] if isinstance(rr[1], list) and name in ('chunks', 'empty-chunk-slices', 'file-chunks') else [rr[1]]
                    for x in results:
                        d = dt_of(x)
                        if d is None:
                            probs.append(('not-an-array', name, lazy, raw_ts, str(declared), type(x).__name__))
                            continue
                        if raw_ts and t in ('TimeStamp', 'TimeStampWhole'):
                            if len(x):
                                nonempty_dtypes.add(str(d))
                            continue
                        if d != declared:
                            probs.append(('dtype-mismatch' if len(x) else 'empty-dtype-mismatch', name, lazy, raw_ts, str(declared), str(d)))
                    if name in ('full', 'ellipsis', 'read_data', 'data') and hasattr(rr[1], '__len__') and len(rr[1]) != len(ch):
                        probs.append(('full-read-length', name, lazy, raw_ts, len(ch), len(rr[1])))
            finally:
                if lazy.startswith('lazy'):
                    tf.close()
    return reads, probs


_MM = []


def _memmap_dir():
    if not _MM:
        import atexit
        import os
        import shutil
        import tempfile
        _MM.append(H.scratch('verif_c14_'))
        atexit.register(shutil.rmtree, _MM[0], True)
    return _MM[0]


def _worker(item):
    t, seed = item
    res = {'counters': {'files': 0, 'reads': 0, 'nontrivial': 0}, 'outcomes': {}, 'violations': [], 'samples': []}
    snames = list(SCALINGS) if t in NUMERIC else (['none'] + list(DAQMX_SCALINGS) if t == 'DAQmx' else ['none'])
    seen = set()
    for sname in snames:
      for big, il in [(b_, i_) for b_ in ((False, True) if (sname in ('none', 'Linear', 'AddRawRaw') or t == 'DAQmx') else (False,))
                      for i_ in ((False, True) if (t in G.TYPES and G.TYPES[t][1] is not None and sname in ('none', 'Linear')) else (False,))]:
        for L in (0, 1, 6):
            reads, probs = check_file(t, sname, L, seed, big, il)
            res['counters']['files'] += 1
            res['counters']['reads'] += reads
            res['counters']['nontrivial'] += 1 if (L or sname != 'none') else 0
            oc = 'consistent' if not probs else 'inconsistent'
            res['outcomes'][oc] = res['outcomes'].get(oc, 0) + 1
            for (kind, op, lazy, raw_ts, declared, actual) in probs:
                sig = {'kind': kind, 'raw': t, 'scale': sname.split(':')[0], 'declared': declared if isinstance(declared, str) else None,
                       'actual': actual if isinstance(actual, str) else None, 'big': big, 'interleaved': il}
                if kind == 'not-an-array':
                    sig['op'] = op
                k = repr(sorted(sig.items()))
                if k in seen:
                    continue
                seen.add(k)
                res['violations'].append({'case': {'raw': t, 'scale': sname, 'length': L, 'big': big, 'il': il, 'op': op, 'lazy': lazy, 'raw_ts': raw_ts, 'seed': seed},
                                          'expected': 'dtype %s' % (declared,), 'observed': '%s: %s returned %s' % (kind, op, actual),
                                          'signature': sig})
    res['samples'].append({'raw': t, 'scalings': snames[:4], 'lengths': [0, 1, 6]})
    return res


def run(ctx):
    from ..run import merge
    m = merge(ctx.map(_worker, [(t, ctx.seed) for t in G.T17 + ['DAQmx', 'TimeStampWhole']]))
    c = m['counters']
    cov = {'evaluations': c['reads'], 'files': c['files'], 'distinct_nontrivial': c['nontrivial'],
           'rule': 'distinct files = (raw type, scaling, length); non-trivial = has data or a scaling; evaluations = individual reads '
                   'whose dtype was compared (each file in 2-4 mode combinations)',
           'scalings': list(SCALINGS), 'outcomes': m['outcomes'], 'samples': m['samples'][:3], 'exhaustive': True,
           'vacuity_failures': [] if c['files'] >= 17 * 3 else ['product incomplete']}
    return cov, m['violations']


def replay(case):
    reads, probs = check_file(case['raw'], case['scale'], case['length'], case.get('seed', 0), case.get('big', False), case.get('il', False))
    for (kind, op, lazy, raw_ts, declared, actual) in probs:
        if op == case['op'] and lazy == case['lazy'] and raw_ts == case['raw_ts']:
            return True, 'dtype %s' % (declared,), '%s: %s returned %s' % (kind, op, actual)
    return False, 'consistent', 'consistent'
