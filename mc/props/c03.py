"""C03 - Every way of obtaining a channel's data gives the same data.   (exploration)

Complete product of: file (cross-section family F3) x {eager, lazy} x access path x {memmap_dir None / dir}
x {raw_timestamps False / True} x {BytesIO stream, real path, stream whose readinto returns short counts
(every single short read; every pair in thorough)}.
"""
import io
import os
import shutil
import tempfile

import numpy as np

from .. import tdmsgen as G
from .. import harness as H
from .. import families as F
from ..streams import ShortReadStream

ID = 'C03'
LEVEL = 'exploration'
TECHNIQUE = 'complete product of files x access paths x configurations, with deviation-bounded short-read injection, on the real code; differential oracle (eager channel[:])'
LEVEL_TEXT = ('For every file of a finite cross-section family the complete product of access paths (slice, ellipsis, read_data, '
              '.data, iteration, every integer index, channel- and file-level chunk streams with offsets, unscaled family) x mode x '
              'memmap x raw_timestamps x source kind is executed; short readinto() counts are injected at every position (bound 1, '
              'thorough 2). All results must equal the eager channel[:].')
LEVEL_NOTE = ('Differential oracle: no expected values are written by hand; the base (eager channel[:]) is tied to the reference by '
              'C01/C02. APIs documented as eager-only are not called on lazy files. Short counts are injected into readinto only '
              '(read(n) of a buffered binary stream returns n bytes).')
ASSUMPTIONS = ['raw_timestamps=True vs False: equal after TimestampArray.as_datetime64("us") (documented change of representation)',
               'dtype of empty results is judged by C14, not here']


def N(x):
    if isinstance(x, dict):
        return ('scalers', tuple(sorted((int(k), N(v)) for k, v in x.items())))
    if isinstance(x, list):
        x = np.array(x, dtype=object) if (x and isinstance(x[0], str)) else np.asarray(x)
    n = H.norm_array(x)
    return n if n[1] else (None, 0, b'')


def concat(parts):
    parts = [p for p in parts if p[1]]
    if not parts:
        return (None, 0, b'')
    dt = parts[0][0]
    if isinstance(parts[0][2], tuple):
        return (dt, sum(p[1] for p in parts), tuple(x for p in parts for x in p[2]))
    return (dt, sum(p[1] for p in parts), b''.join(p[2] for p in parts))


def scal_list(vals):
    out = [H.norm_scalar(v) for v in vals]
    if not out:
        return (None, 0, b'')
    if out[0][0] == '|O':
        return ('|O', len(out), tuple(o[1] for o in out))
    return (out[0][0], len(out), b''.join(o[1] for o in out))


def open_file(src, data, lazy, raw_ts, memmap, tmp, plan=None):
    if src == 'stream':
        f = io.BytesIO(data)
    elif src == 'short':
        f = ShortReadStream(data, plan)
    elif src == 'pathlib':
        import pathlib
        f = pathlib.Path(tmp) / 'f.tdms'
    elif src == 'gzip':
        # a seekable file object that is not the file: its descriptor belongs to the compressed container on disk
        import gzip
        gz = os.path.join(tmp, 'f.tdms.gz')
        if not os.path.exists(gz):
            with gzip.open(gz, 'wb') as g_:
                g_.write(data)
        f = gzip.open(gz, 'rb')
    else:
        f = os.path.join(tmp, 'f.tdms')
    fn = H.TdmsFile.open if lazy else H.TdmsFile.read
    return fn(f, raw_timestamps=raw_ts, memmap_dir=(tmp if memmap else None)), f


def access_paths(tf, ch, lazy, has_scaling_ok):
    """-> list of (name, thunk) applicable in this mode"""
    out = []
    if has_scaling_ok:
        out += [('slice', lambda: N(ch[:])), ('ellipsis', lambda: N(ch[...])), ('read_data', lambda: N(ch.read_data())),
                ('iter', lambda: scal_list(list(ch))), ('index', lambda: scal_list([ch[i] for i in range(len(ch))])),
                ('neg-index', lambda: scal_list([ch[i - len(ch)] for i in range(len(ch))]))]
        # .data / .raw_data are for eagerly read files; on a lazily opened file they may refuse (raise), but they must not
        # hand back anything else than the channel's data
        out.append(('data' if not lazy else 'data?', lambda: N(ch.data)))
    out.append(('unscaled-read_data', lambda: ('U',) + N(ch.read_data(scaled=False))))
    if True:
        def raw():
            if ch.scaler_data_types and ch.data_type.__name__ == 'DaqMxRawData':
                return ('U',) + N(ch.raw_scaler_data)
            return ('U',) + N(ch.raw_data)
        out.append(('unscaled-raw_data' if not lazy else 'unscaled-raw_data?', raw))
    if lazy and has_scaling_ok:
        def chan_chunks():
            parts, off = [], 0
            for c in ch.data_chunks():
                if c.offset != off:
                    raise AssertionError('chunk offset %d, running count %d' % (c.offset, off))
                parts.append(N(c[:]))
                if len(c) != parts[-1][1]:
                    raise AssertionError('len(chunk) %d but it holds %d values' % (len(c), parts[-1][1]))
                off += parts[-1][1]
            return concat(parts)

        def file_chunks():
            parts, off = [], 0
            for dc in tf.data_chunks():
                c = dc[ch.group_name][ch.name]
                if c.offset != off:
                    raise AssertionError('file chunk offset %d, running count %d' % (c.offset, off))
                parts.append(N(c[:]))
                if len(c) != parts[-1][1]:
                    raise AssertionError('len(file chunk) %d but it holds %d values' % (len(c), parts[-1][1]))
                off += parts[-1][1]
            return concat(parts)

        # the same streams consumed the other way round: all chunks are collected first (list(...)) and looked at afterwards -
        # a chunk and the array it handed out must stay what they were when the iterator moves on
        def chan_chunks_kept():
            kept = [(c, c[:]) for c in ch.data_chunks()]
            parts, off = [], 0
            for c, arr in kept:
                if c.offset != off:
                    raise AssertionError('kept chunk offset %d, running count %d' % (c.offset, off))
                parts.append(N(arr))
                if N(c[:]) != parts[-1]:
                    raise AssertionError('a chunk read again after the iterator advanced holds other values')
                off += parts[-1][1]
            return concat(parts)

        def file_chunks_kept():
            kept = list(tf.data_chunks())
            parts, off = [], 0
            for dc in kept:
                c = dc[ch.group_name][ch.name]
                if c.offset != off:
                    raise AssertionError('kept file chunk offset %d, running count %d' % (c.offset, off))
                parts.append(N(c[:]))
                off += parts[-1][1]
            return concat(parts)
        out += [('channel-chunks', chan_chunks), ('file-chunks', file_chunks), ('channel-chunks-kept', chan_chunks_kept),
                ('file-chunks-kept', file_chunks_kept)]
    return out


def as_us(norm_raw):
    """documented change of representation for raw timestamps"""
    if norm_raw[0] != 'ts' or not norm_raw[1]:
        return norm_raw
    from nptdms.timestamp import TimestampArray
    a = np.frombuffer(norm_raw[2], dtype=[('second_fractions', '<u8'), ('seconds', '<i8')])
    return N(TimestampArray(a).as_datetime64('us'))


def run_file(item):
    name, hist, seed, tier = item
    data, _i, _l, ref = G.encode(hist, seed=seed)
    res = {'counters': {'files': 1, 'configs': 0, 'accesses': 0, 'short_read_runs': 0, 'nontrivial': 0}, 'outcomes': {},
           'violations': [], 'samples': []}
    tmp = H.scratch('verif_c03_')
    try:
        with open(os.path.join(tmp, 'f.tdms'), 'wb') as f:
            f.write(data)
        base = {}
        for raw_ts in (False, True):
            r = H.guarded(lambda: H.TdmsFile.read(io.BytesIO(data), raw_timestamps=raw_ts))
            if r[0] != 'ok':
                res['violations'].append(_viol(name, hist, seed, 'base', 'eager read', 'no error', repr(r), 'base-raised'))
                return res
            for g in r[1].groups():
                for ch in g.channels():
                    ok = not (ch.scaler_data_types and not _has_scaling(ch))
                    rr = H.guarded(lambda: (N(ch[:]) if ok else None, ('U',) + N(ch.read_data(scaled=False))))
                    if rr[0] != 'ok':
                        res['violations'].append(_viol(name, hist, seed, 'base', ch.path, 'no error', repr(rr), 'base-raised'))
                        return res
                    base[(raw_ts, ch.path)] = rr[1]
        # raw vs non-raw representation
        for (raw_ts, p), (sc, un) in base.items():
            if raw_ts and sc is not None and base[(False, p)][0][1]:
                conv = H.guarded(as_us, sc)
                if conv[0] != 'ok' or conv[1] != base[(False, p)][0]:
                    res['violations'].append(_viol(name, hist, seed, 'raw_timestamps', p, base[(False, p)][0], conv, 'raw-vs-datetime64'))
        paths = sorted(set(p for _r, p in base))
        if any(base[(False, p)][1][2] for p in paths):
            res['counters']['nontrivial'] += 1

        def run_config(src, lazy, raw_ts, memmap, plan=None):
            res['counters']['configs'] += 1
            r = H.guarded(lambda: open_file(src, data, lazy, raw_ts, memmap, tmp, plan))
            cfg = {'src': src, 'lazy': lazy, 'raw_ts': raw_ts, 'memmap': memmap, 'plan': plan}
            if r[0] != 'ok':
                res['violations'].append(_viol(name, hist, seed, cfg, 'open', 'no error', repr(r), 'open-raised'))
                return None
            tf, f = r[1]
            try:
                for g in tf.groups():
                    for ch in g.channels():
                        ok = not (ch.scaler_data_types and not _has_scaling(ch))
                        for an, thunk in access_paths(tf, ch, lazy, ok):
                            res['counters']['accesses'] += 1
                            rr = H.guarded(thunk)
                            exp = base[(raw_ts, ch.path)][1 if an.startswith('unscaled') else 0]
                            if rr[0] != 'ok' and an.endswith('?'):
                                continue   # an eager-only API refusing on a lazy file
                            if rr[0] != 'ok':
                                res['violations'].append(_viol(name, hist, seed, cfg, [ch.path, an], exp, repr(rr), 'access-raised', an))
                            elif rr[1] != exp:
                                res['violations'].append(_viol(name, hist, seed, cfg, [ch.path, an], exp, rr[1], 'access-differs', an))
            finally:
                if lazy:
                    tf.close()
            return f
        for src in ('stream', 'path', 'pathlib'):
            for lazy in (False, True):
                for raw_ts in (False, True):
                    for memmap in (False, True):
                        run_config(src, lazy, raw_ts, memmap)
        for lazy in (False, True):
            f = run_config('gzip', lazy, False, False)
            if f is not None:
                f.close()
        # short reads: find how many readinto calls a run makes, then inject at every position
        for lazy in (False, True):
            f = run_config('short', lazy, False, False, plan={})
            if f is None:
                continue
            ncalls = f.count
            plans = [{k: 1} for k in range(ncalls)] + [{k: 3} for k in range(ncalls)]
            if tier == 'thorough' and ncalls <= 24:
                plans += [{k1: 1, k2: 2} for k1 in range(ncalls) for k2 in range(k1 + 1, ncalls + 2)]
            for plan in plans:
                res['counters']['short_read_runs'] += 1
                run_config('short', lazy, False, False, plan=plan)
    finally:
        shutil.rmtree(tmp, ignore_errors=True)
    res['outcomes']['agree' if not res['violations'] else 'disagree'] = 1
    if len(res['violations']) > 12:
        res['violations'] = res['violations'][:12]
    if name.startswith(('inh', 'daqmx')):
        res['samples'].append({'file': name, 'history': G.describe(hist), 'configs': res['counters']['configs'],
                               'accesses': res['counters']['accesses']})
    return res


def _has_scaling(ch):
    return any(k.startswith('NI_Number_Of_Scales') or k.startswith('NI_Scale') for k in ch.properties)


def _short(x):
    return repr(x)[:200]


def _viol(name, hist, seed, cfg, access, exp, got, kind, an=None):
    return {'case': {'file': name, 'history': hist, 'seed': seed, 'config': cfg, 'access': access},
            'expected': _short(exp), 'observed': _short(got),
            'signature': {'kind': kind, 'access': an, 'family': name.split('/')[0],
                          'src': cfg.get('src') if isinstance(cfg, dict) else None,
                          'lazy': cfg.get('lazy') if isinstance(cfg, dict) else None}}


def run(ctx):
    from ..run import merge
    fl = F.f3_files(ctx.tier)
    items = [(n, h, ctx.seed, ctx.tier) for n, h in fl]
    m = merge(ctx.map(run_file, items))
    c = m['counters']
    vac = [] if c.get('short_read_runs') else ['no short-read run']
    cov = {'evaluations': c['accesses'], 'files': c['files'], 'configurations': c['configs'],
           'short_read_runs': c['short_read_runs'], 'distinct_nontrivial': c['nontrivial'],
           'rule': 'evaluations = individual access-path results compared with the base; distinct_nontrivial = distinct files '
                   'with at least one non-empty channel',
           'outcomes': m['outcomes'], 'samples': m['samples'][:4], 'exhaustive': True, 'vacuity_failures': vac}
    return cov, m['violations']


def replay(case):
    r = run_file((case['file'], case['history'], case.get('seed', 0), 'quick'))
    for v in r['violations']:
        if v['case']['access'] == case['access'] and v['case']['config'] == case['config']:
            return True, v['expected'], v['observed']
    if r['violations']:
        v = r['violations'][0]
        return True, v['expected'], v['observed'] + ' (other access: %r)' % (v['case']['access'],)
    return False, 'all access paths agree', 'agree'
