"""C16 - Object names are arbitrary strings and never alias.   (exploration, exhaustive)

(a) every string of length <= 4 over {quote, slash, space, letter} (341) plus a non-ASCII list as group name,
    and every pair of strings of length <= 3 (85 x 85) as (group, channel): name -> path -> name is the
    identity and name -> path is injective;
(b) every pair written with the real TdmsWriter and read back with the real TdmsFile (name, path,
    group_name, lookup, data sentinel); one file holding all group names at once, each with channels of
    confusable names carrying distinct sentinels; the same file produced by the independent encoder.
"""
import io
import itertools
import struct

import numpy as np

from .. import harness as H
from .. import tdmsgen as G

ID = 'C16'
LEVEL = 'exploration'
TECHNIQUE = 'exhaustive enumeration of all names over a 4-symbol alphabet up to length 4 (pairs 3+3), on the real path code, writer and reader, against an independent path grammar'
LEVEL_TEXT = ('All 341 strings of length <= 4 over {quote, slash, space, a} (+ non-ASCII names) as group names and all 7225 pairs of '
              'strings of length <= 3 as (group, channel) go through ObjectPath, through a TdmsWriter -> TdmsFile cycle each, and '
              'through one file that contains every name at once; identity and injectivity are checked against an independent '
              'implementation of the quote-doubling grammar.')
LEVEL_NOTE = 'Trusted: the path grammar in mc/harness._components / refpath below. Random unicode beyond the listed names is not explored (sampling is not used).'
ASSUMPTIONS = []

ALPHA = ["'", '/', ' ', 'a']
EXTRA = ['\u00e9', '日本', '😀', 'e\u0301', 'עברית', "/'a'/'b'", "a''", 'A', 'a\n',
         # canonically equivalent spellings are different names: OHM SIGN / GREEK OMEGA, A + COMBINING RING / A WITH RING, a path-like name next to the object it spells
         '\u2126', '\u03a9', 'A\u030a', '\u00c5', "/'a'", "/'a'/'a'"]


def strings(maxlen):
    out = []
    for n in range(maxlen + 1):
        out += [''.join(t) for t in itertools.product(ALPHA, repeat=n)]
    return out


def refpath(*comps):
    return '/' + '/'.join("'" + c.replace("'", "''") + "'" for c in comps)


def part_a(item):
    from nptdms.common import ObjectPath
    lo, hi, names3 = item
    res = {'counters': {'cases': 0}, 'violations': [], 'paths': []}

    def bad(kind, names, exp, got):
        if len(res['violations']) < 10:
            res['violations'].append({'case': {'part': 'a', 'names': list(names)}, 'expected': exp, 'observed': got,
                                      'signature': {'kind': kind, 'ncomp': len(names)}})

    def one(names):
        res['counters']['cases'] += 1
        r = H.guarded(lambda: ObjectPath(*names))
        if r[0] != 'ok':
            return bad('construct-raised', names, refpath(*names), repr(r))
        op = r[1]
        p = str(op)
        if p != refpath(*names):
            bad('path-format', names, refpath(*names), p)
        r = H.guarded(lambda: ObjectPath.from_string(p))
        if r[0] != 'ok':
            return bad('parse-raised', names, list(names), repr(r))
        back = r[1]
        got = [x for x in (back.group, back.channel) if x is not None]
        if got != list(names) or str(back) != p:
            bad('roundtrip', names, list(names), got)
        if H._components(p) != list(names):
            bad('grammar', names, list(names), H._components(p))
        flags = (back.is_root, back.is_group, back.is_channel)
        if flags != (False, len(names) == 1, len(names) == 2):
            bad('flags', names, (False, len(names) == 1, len(names) == 2), flags)
        if len(names) == 2 and back.group_path() != refpath(names[0]):
            bad('group_path', names, refpath(names[0]), back.group_path())
        res['paths'].append((p, tuple(names)))
    for g in names3[lo:hi]:
        for c in names3:
            one((g, c))
    return res


def part_a_mixed(item):
    groups, chans = item
    r = part_a((0, len(groups), groups)) if False else None
    res = {'counters': {'cases': 0}, 'violations': [], 'paths': []}
    sub = part_a_pairs(groups, chans)
    return sub


def part_a_pairs(groups, chans):
    from nptdms.common import ObjectPath
    res = {'counters': {'cases': 0}, 'violations': [], 'paths': []}
    for g in groups:
        for c in chans:
            res['counters']['cases'] += 1
            names = (g, c)
            r = H.guarded(lambda: ObjectPath(*names))
            if r[0] != 'ok':
                res['violations'].append({'case': {'part': 'a', 'names': list(names)}, 'expected': refpath(*names), 'observed': repr(r),
                                          'signature': {'kind': 'construct-raised', 'ncomp': 2}})
                continue
            p = str(r[1])
            rb = H.guarded(lambda: ObjectPath.from_string(p))
            got = [x for x in (rb[1].group, rb[1].channel) if x is not None] if rb[0] == 'ok' else None
            if p != refpath(*names) or got != list(names) or H._components(p) != list(names):
                if len(res['violations']) < 10:
                    res['violations'].append({'case': {'part': 'a', 'names': list(names)}, 'expected': refpath(*names), 'observed': repr((p, got)),
                                              'signature': {'kind': 'roundtrip', 'ncomp': 2}})
            res['paths'].append((p, tuple(names)))
    return res


def sentinel(g, c):
    return (sum((i + 1) * b for i, b in enumerate((g + '\x01' + c).encode('utf-8'))) * 2654435761) % (2 ** 31)


def part_b(item):
    """write/read cycle for every (group, channel) pair in a slice"""
    from nptdms import TdmsWriter, ChannelObject, GroupObject
    lo, hi, names3 = item
    res = {'counters': {'cases': 0}, 'violations': []}

    def bad(kind, g, c, exp, got):
        if len(res['violations']) < 10:
            res['violations'].append({'case': {'part': 'b', 'names': [g, c], 'slice': [lo, hi]}, 'expected': exp, 'observed': got,
                                      'signature': {'kind': kind}})
    for g in names3[lo:hi]:
        for c in names3:
            res['counters']['cases'] += 1
            s = sentinel(g, c)

            def cycle():
                out = io.BytesIO()
                with TdmsWriter(out) as w:
                    w.write_segment([GroupObject(g, {'who': g}), ChannelObject(g, c, np.array([s], dtype=np.int32), {'who': c})])
                tf = H.TdmsFile.read(io.BytesIO(out.getvalue()))
                grp = tf[g]
                ch = grp[c]
                return (grp.name, grp.path, ch.name, ch.group_name, ch.path, int(ch[0]), grp.properties['who'],
                        ch.properties['who'], [x.name for x in tf.groups()], [x.name for x in grp.channels()],
                        g in tf, c in grp)
            r = H.guarded(cycle)
            exp = (g, refpath(g), c, g, refpath(g, c), s, g, c, [g], [c], True, True)
            if r[0] != 'ok':
                bad('cycle-raised', g, c, exp, repr(r))
            elif r[1] != exp:
                bad('cycle-differs', g, c, exp, r[1])
    return res


def confusable(c):
    return [c, c + "'", "'" + c, c + '/', c + ' ']


def part_c(item):
    """one file with every group name at once; written by the real writer, and by the independent encoder"""
    from nptdms import TdmsWriter, ChannelObject
    which, names = item
    res = {'counters': {'cases': 0}, 'violations': []}
    triples = []
    for g in names:
        seen = set()
        for c in confusable(g[:2]):
            if c not in seen:
                seen.add(c)
                triples.append((g, c, sentinel(g, c)))

    def build():
        if which == 'writer':
            out = io.BytesIO()
            with TdmsWriter(out) as w:
                for i in range(0, len(triples), 50):
                    w.write_segment([ChannelObject(g, c, np.array([s], dtype=np.int32)) for g, c, s in triples[i:i + 50]])
            return out.getvalue()
        segs = []
        for i in range(0, len(triples), 50):
            segs.append(G.seg([(refpath(g, c), ['FULL', 'Int32', 1]) for g, c, s in triples[i:i + 50]]))
        data, _i, _l, ref = G.encode(segs)
        # sentinels differ in this variant: take the values the encoder dealt
        return data, {refpath(g, c): int.from_bytes(ref.values[refpath(g, c)][0], 'little', signed=True) for g, c, s in triples}
    r = H.guarded(build)
    if r[0] != 'ok':
        res['violations'].append({'case': {'part': 'c', 'which': which}, 'expected': 'file built', 'observed': repr(r),
                                  'signature': {'kind': 'build-raised', 'which': which}})
        return res
    if which == 'writer':
        data, expect = r[1], {refpath(g, c): s for g, c, s in triples}
    else:
        data, expect = r[1]
    r = H.guarded(lambda: H.TdmsFile.read(io.BytesIO(data)))
    if r[0] != 'ok':
        res['violations'].append({'case': {'part': 'c', 'which': which}, 'expected': 'file read', 'observed': repr(r),
                                  'signature': {'kind': 'read-raised', 'which': which}})
        return res
    tf = r[1]
    if sorted(g.name for g in tf.groups()) != sorted(set(names)):
        res['violations'].append({'case': {'part': 'c', 'which': which}, 'expected': '%d groups' % len(set(names)),
                                  'observed': '%d groups' % len(tf.groups()), 'signature': {'kind': 'group-set', 'which': which}})
    # every group lists exactly its own channels, in order
    by_group = {}
    for g, c, _s in triples:
        by_group.setdefault(g, []).append(c)
    for g, chans in by_group.items():
        res['counters']['cases'] += 1
        rr = H.guarded(lambda: [c.name for c in tf[g].channels()])
        if rr[0] != 'ok' or rr[1] != chans:
            if len(res['violations']) < 10:
                res['violations'].append({'case': {'part': 'c', 'which': which, 'names': [g]}, 'expected': chans, 'observed': repr(rr)[:300],
                                          'signature': {'kind': 'group-members', 'which': which}})
    for g, c, _s in triples:
        res['counters']['cases'] += 1
        rr = H.guarded(lambda: (int(tf[g][c][0]), tf[g][c].name, tf[g][c].group_name, tf[g][c].path))
        exp = (expect[refpath(g, c)], c, g, refpath(g, c))
        if rr[0] != 'ok' or rr[1] != exp:
            if len(res['violations']) < 10:
                res['violations'].append({'case': {'part': 'c', 'which': which, 'names': [g, c]}, 'expected': exp,
                                          'observed': repr(rr), 'signature': {'kind': 'lookup-confused', 'which': which}})
    return res


def run(ctx):
    from ..run import merge
    from nptdms.common import ObjectPath
    s4 = list(dict.fromkeys(strings(5 if ctx.tier == 'thorough' else 4) + EXTRA))
    s3 = strings(3)
    viol = []
    # (a) single component names in the parent (cheap), pairs in workers
    paths = {}
    n_single = 0
    for g in s4:
        n_single += 1
        p = str(ObjectPath(g))
        back = ObjectPath.from_string(p)
        if p != refpath(g) or back.group != g or back.channel is not None or H._components(p) != [g]:
            viol.append({'case': {'part': 'a', 'names': [g]}, 'expected': refpath(g), 'observed': p,
                         'signature': {'kind': 'roundtrip', 'ncomp': 1}})
        paths.setdefault(p, set()).add((g,))
    step = 6
    ra = ctx.map(part_a, [(i, min(i + step, len(s3)), s3) for i in range(0, len(s3), step)])
    n_pairs = 0
    for r in ra:
        n_pairs += r['counters']['cases']
        viol.extend(r['violations'])
        for p, names in r['paths']:
            paths.setdefault(p, set()).add(names)
    collisions = {p: v for p, v in paths.items() if len(v) > 1}
    for p, v in list(collisions.items())[:5]:
        viol.append({'case': {'part': 'a', 'path': p, 'names': sorted(map(list, v))}, 'expected': 'distinct names give distinct paths',
                     'observed': '%d names map to %s' % (len(v), p), 'signature': {'kind': 'alias'}})
    # (b) writer -> reader per pair
    rb = merge(ctx.map(part_b, [(i, min(i + 3, len(s3)), s3) for i in range(0, len(s3), 3)]))
    if ctx.tier == 'thorough':
        # groups of length 4 against channels of length <= 3 (path level and through a write/read cycle)
        g4 = [x for x in strings(4) if len(x) == 4]
        ra2 = ctx.map(part_a_mixed, [(g4[i:i + 8], s3) for i in range(0, len(g4), 8)])
        for r in ra2:
            n_pairs += r['counters']['cases']
            viol.extend(r['violations'])
            for p_, names_ in r['paths']:
                paths.setdefault(p_, set()).add(names_)
        collisions = {p_: v for p_, v in paths.items() if len(v) > 1}
        for p_, v in list(collisions.items())[:5]:
            viol.append({'case': {'part': 'a', 'path': p_, 'names': sorted(map(list, v))}, 'expected': 'distinct names give distinct paths',
                         'observed': '%d names map to %s' % (len(v), p_), 'signature': {'kind': 'alias'}})
    # (c) everything in one file
    rc = merge(ctx.map(part_c, [('writer', s4), ('encoder', s4)]))
    viol += rb['violations'] + rc['violations']
    total = n_single + n_pairs + rb['counters']['cases'] + rc['counters']['cases']
    cov = {'evaluations': total, 'distinct_nontrivial': len(paths),
           'rule': 'distinct_nontrivial = distinct object paths produced (one per distinct name tuple when the map is injective); '
                   'evaluations = path round trips + write/read cycles + lookups in the all-names files',
           'group_names': n_single, 'pairs': n_pairs, 'write_read_cycles': rb['counters']['cases'],
           'all_names_file_lookups': rc['counters']['cases'], 'distinct_paths': len(paths), 'collisions': len(collisions),
           'samples': [{'names': ["'", "/'"], 'path': refpath("'", "/'")}, {'names': ['', ''], 'path': refpath('', '')},
                       {'names': ['日本'], 'path': refpath('日本')}],
           'exhaustive': True, 'vacuity_failures': [] if n_pairs >= len(s3) ** 2 else ['pair enumeration incomplete']}
    return cov, viol


def replay(case):
    from nptdms.common import ObjectPath
    if case.get('part') == 'b':
        one = _one_cycle(*case['names'])
        if one[0] or 'slice' not in case:
            return one
        # not reproducible in isolation: replay the worker's whole slice in the same order (process-level state)
        r = part_b((case['slice'][0], case['slice'][1], strings(3)))
        for v in r['violations']:
            if v['case']['names'] == case['names']:
                return True, v['expected'], v['observed']
        return (bool(r['violations']), one[1], r['violations'][0]['observed'] if r['violations'] else one[2])
    if case.get('part') == 'c':
        r = part_c((case['which'], list(dict.fromkeys(strings(4) + EXTRA))))
        return (bool(r['violations']), 'own sentinel for every lookup', r['violations'][0]['observed'] if r['violations'] else 'ok')
    names = case.get('names', [])
    if names and isinstance(names[0], list):
        ps = set(str(ObjectPath(*n)) for n in names)
        return (len(ps) < len(names), 'distinct paths', sorted(ps))
    p = str(ObjectPath(*names))
    back = ObjectPath.from_string(p)
    got = [x for x in (back.group, back.channel) if x is not None]
    return (p != refpath(*names) or got != list(names), refpath(*names), (p, got))


def _one_cycle(g, c):
    from nptdms import TdmsWriter, ChannelObject, GroupObject
    s = sentinel(g, c)

    def cycle():
        out = io.BytesIO()
        with TdmsWriter(out) as w:
            w.write_segment([GroupObject(g, {'who': g}), ChannelObject(g, c, np.array([s], dtype=np.int32), {'who': c})])
        tf = H.TdmsFile.read(io.BytesIO(out.getvalue()))
        ch = tf[g][c]
        return (tf[g].name, tf[g].path, ch.name, ch.group_name, ch.path, int(ch[0]))
    r = H.guarded(cycle)
    exp = (g, refpath(g), c, g, refpath(g, c), s)
    return (r[0] != 'ok' or r[1] != exp, exp, r)
