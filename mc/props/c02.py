"""C02 - Segment metadata inheritance never changes what is read.   (model checking)

The reader's object-list inheritance machine is explored exhaustively:
 (i)  full tree (no state merging) of all histories up to a depth over the label alphabet;
 (ii) explicit-state BFS to a fixpoint with de-duplication on the reference model's abstract
      state refined by an implementation fingerprint; every transition out of every reachable
      state is executed on the real reader.
Every history is encoded by the independent encoder and read by the real code, eagerly and
lazily, and compared with the reference interpretation and with the reading of the fully
explicit encoding of the same content.
"""
import hashlib
import io
import itertools

from .. import tdmsgen as G
from .. import harness as H

ID = 'C02'
LEVEL = 'model_checking'
TECHNIQUE = 'explicit-state model checking of the real reader: full history tree + BFS to fixpoint over segment-header labels, against an independent reference model'
LEVEL_TEXT = ('Every segment history over the stated header alphabet (all per-object encodings x orders x new-list flag x '
              'metadata-present flag x chunk counts x property update x forbidden moves) is executed on the real reader, '
              'eagerly and lazily: full tree to depth 2-3 and BFS over abstract+implementation state to a fixpoint (depth-unbounded '
              'for that alphabet). Also: an alphabet of declarations contributing no values (zero-length indexes, zero chunks), '
              'depth-4 trees over 13 / 25 labels, and DAQmx layouts whose later segments restate / permute / switch off / inherit '
              'indexes. Counts of states/transitions/histories are in the evidence.')
LEVEL_NOTE = ('Trusted: the reference semantics in mc/tdmsgen.py (independent of nptdms; bound by selftest to LabVIEW-written files) '
              'and soundness of state merging (key = model state refined by implementation fingerprint). Universe: 2-3 channels, '
              'n<=2 values, <=2 chunks, contiguous layout.')
ASSUMPTIONS = [
    'reference model = NI TDMS inheritance rules as written in mc/tdmsgen.py (bound to the code by selftest '
    'and by executing every enumerated history on the implementation)',
    'state merging is sound for futures of the reference model; the key is only refined (never coarsened) by an '
    'implementation fingerprint, and is paired with a no-merging full-tree enumeration',
    'forbidden SAME on a never-indexed object: raising, or attributing no data to that object, both accepted',
]

CH = {'a': "/'g'/'a'", 'b': "/'g'/'b'", 'c': "/'g'/'c'", 'd': "/'g'/'d'", 'e': "/'g'/'e'", 'f': "/'g'/'f'"}
TYPE = {'a': 'Int32', 'b': 'Int16', 'c': 'String', 'd': 'TimeStamp', 'e': 'String', 'f': 'DoubleFloat'}
# (d, e: a change between two types without a NumPy equivalent; f: between a float and the same float "with unit")
ALT = {'a': 'Int8', 'b': 'Int64', 'c': 'Int32', 'd': 'String', 'e': 'TimeStamp', 'f': 'DoubleFloatWithUnit'}


def enc_of(ch, name):
    if name == 'F1':
        return ['FULL', 'String', 1, 2] if TYPE[ch] == 'String' else ['FULL', TYPE[ch], 1]
    if name == 'F2':
        return ['FULL', 'String', 2, 3] if TYPE[ch] == 'String' else ['FULL', TYPE[ch], 2]
    if name == 'F0':
        return ['FULL', 'String', 0, 0] if TYPE[ch] == 'String' else ['FULL', TYPE[ch], 0]
    if name == 'FX':
        return ['FULL', 'String', 1, 2] if ALT[ch] == 'String' else ['FULL', ALT[ch], 1]
    return [name]


def labels(channels, encs, chunk_opts, props):
    """The transition alphabet: every header a segment can carry over this universe."""
    out = []
    for c in chunk_opts:
        out.append({'meta': False, 'chunks': c})
    for newlist in (True, False):
        for k in range(len(channels) + 1):
            for subset in itertools.permutations(channels, k):
                for es in itertools.product(*[(encs[ch] if isinstance(encs, dict) else encs) for ch in subset]):
                    for c in chunk_opts:
                        for p in ((False, True) if (props and k) else (False,)):
                            out.append({'meta': True, 'newlist': newlist,
                                        'entries': [[ch, e] for ch, e in zip(subset, es)],
                                        'chunks': c, 'prop': p})
    return out


def mkseg(label, si):
    if not label['meta']:
        return G.seg([], meta=False, chunks=label['chunks'])
    objs = []
    for i, (ch, e) in enumerate(label['entries']):
        props = [['p', 'Int32', (si + 1).to_bytes(4, 'little').hex()]] if (label.get('prop') and i == 0) else []
        objs.append((CH[ch], enc_of(ch, e), props))
    return G.seg(objs, newlist=label['newlist'], chunks=label['chunks'])


def mkhist(lbls, flags=None):
    h = [mkseg(l, i) for i, l in enumerate(lbls)]
    if flags:
        for seg, (il, be) in zip(h, flags):
            seg['interleaved'] = bool(il)
            seg['big'] = bool(be)
    return h


def flags_valid(ref, flags):
    """an interleaved segment is well-formed only if all its data objects are fixed-width and equally long"""
    for plan, (il, _be) in zip(ref.segments, flags):
        if il and plan['data_objs']:
            ns = set(i['n'] for _p, i in plan['data_objs'])
            if len(ns) > 1 or any(i['t'] == 'String' for _p, i in plan['data_objs']):
                return False
    return True


def fingerprint(data):
    """Implementation-state refinement of the BFS key (private attributes; optional)."""
    try:
        tf = H.TdmsFile.open(io.BytesIO(data))
        try:
            segs = tf._reader._segments
            last = segs[-1]
            earlier = set()
            for s in segs[:-1]:
                if s.ordered_objects is not last.ordered_objects:
                    earlier.update(id(o) for o in s.ordered_objects)
            ent = tuple((o.path, bool(o.has_data), int(o.number_values), int(o.data_size),
                         getattr(o.data_type, '__name__', None), id(o) in earlier) for o in last.ordered_objects)
            shared_list = len(segs) > 1 and segs[-2].ordered_objects is last.ordered_objects
            prev = tuple(sorted((p, bool(o.has_data), int(o.number_values), int(o.data_size))
                                for p, o in tf._reader._prev_segment_objects.items()))
            return (ent, shared_list, prev)
        finally:
            tf.close()
    except Exception:
        return None


def nontrivial(lbls):
    if len(lbls) < 2:
        return False
    for l in lbls:
        if not l['meta'] or not l['newlist'] or l.get('prop'):
            return True
        if any(e in ('SAME', 'NODATA') for _, e in l['entries']):
            return True
    return False


def features(lbls, ref):
    f = {}
    seen_listed = {}
    for si, l in enumerate(lbls):
        if not l['meta']:
            f['nometa'] = 1
            if si and lbls[si - 1]['meta'] and any(e in ('SAME', 'NODATA') for _, e in lbls[si - 1]['entries']):
                f['nometa_after_flip'] = 1
            continue
        for ch, e in l['entries']:
            if e == 'SAME' and ch in seen_listed and seen_listed[ch] < si - 1:
                f['same_after_gap'] = 1
            if e == 'SAME' and l['newlist']:
                f['same_with_newlist'] = 1
            seen_listed[ch] = si
        if si and lbls[si - 1]['meta']:
            a = [ch for ch, _ in lbls[si - 1]['entries']]
            b = [ch for ch, _ in l['entries']]
            if a != b and sorted(a) == sorted(b) and l['newlist']:
                f['order_swap'] = 1
    return f


def check_history(lbls, seed, want_key=False, differential=True, flags=None):
    """Execute one history on the real code.  -> (outcome, violation|None, key|None, forbidden)"""
    hist = mkhist(lbls, flags)
    ref = G.interpret(hist, seed=seed, lenient=True)
    if flags and not flags_valid(ref, flags):
        return 'skipped-malformed-interleaving', None, None, True, ref
    data, _i, _layout, ref = G.encode(hist, seed=seed, ref=ref)
    forb = ref.forbidden
    oe = H.observe(data, lazy=False)
    ol = H.observe(data, lazy=True)
    viol = None
    if not forb:
        outcome = 'equal'
        for mode, o in (('eager', oe), ('lazy', ol)):
            if o[0] != 'ok':
                viol = ('valid history raised %s: %s' % (o[1], o[2]), mode, 'raised')
                break
            why = H.compare_with_ref(o[1], ref)
            if why:
                viol = (why, mode, 'differs-from-reference')
                break
        if viol is None and differential:
            ex = G.explicit(hist, seed=seed)
            dx = G.encode(ex, seed=seed)[0]
            ox = H.observe(dx, lazy=False)
            if ox[0] != 'ok':
                viol = ('explicit encoding raised %s: %s' % (ox[1], ox[2]), 'explicit', 'raised')
            elif ox[1] != oe[1]:
                viol = ('compact and explicit encodings read differently', 'eager', 'differs-from-explicit')
    else:
        kind = forb[0][0]
        outcome = 'raised_as_required'
        # the same forbidden history with its last segment left open-ended ('length unknown' marker) must not fare better
        hm = [dict(s_) for s_ in hist]
        hm[-1]['marker'] = True
        dm = G.encode(hm, seed=seed, ref=G.interpret(hm, seed=seed, lenient=True))[0]
        for mode, o in (('eager', oe), ('lazy', ol), ('eager+marker', H.observe(dm, lazy=False)), ('lazy+marker', H.observe(dm, lazy=True))):
            if o[0] == 'raised':
                continue
            if kind == 'same-without-previous-index':
                why = H.compare_with_ref(o[1], ref)
                if why is None:
                    outcome = 'forbidden_read_as_no_data'
                    continue
                viol = ('forbidden SAME on a never-indexed object was read as data: ' + why, mode,
                        'forbidden-accepted')
            else:
                viol = ('forbidden encoding (%s) accepted without error' % kind, mode, 'forbidden-accepted')
            break
    v = None
    if viol is not None:
        last2 = [_label_kind(l) for l in lbls[-2:]]
        v = {'case': {'labels': lbls, 'seed': seed, 'flags': flags}, 'expected': 'reads as reference interpretation' if not forb
             else 'error (forbidden: %s)' % forb[0][0], 'observed': viol[0],
             'signature': {'kind': viol[2], 'mode': viol[1], 'last_labels': last2, 'flags': flags}}
    key = None
    if want_key and not forb:
        fp = fingerprint(data)
        key = hashlib.md5(repr((ref.states[-1], fp)).encode()).hexdigest()
    return outcome, v, key, bool(forb), ref


def _label_kind(l):
    if not l['meta']:
        return 'nometa'
    return ('new:' if l['newlist'] else 'app:') + ','.join(sorted(set(e for _, e in l['entries'])))


# ---------------------------------------------------------------------------------------
# workers
# ---------------------------------------------------------------------------------------

_CFG = {}


def _tree_worker(item):
    """Enumerate every history that starts with `prefix`, up to `depth`, over alphabet `aname`."""
    prefix, depth, aname, seed = item
    alpha = _alphabet(aname)
    res = {'counters': {'histories': 0, 'nontrivial': 0}, 'outcomes': {}, 'violations': [], 'samples': []}

    def rec(lbls):
        outcome, v, _k, forb, ref = check_history(lbls, seed)
        res['counters']['histories'] += 1
        res['outcomes'][outcome] = res['outcomes'].get(outcome, 0) + 1
        if nontrivial(lbls):
            res['counters']['nontrivial'] += 1
        fts = features(lbls, ref)
        for k in fts:
            res['counters']['feat_' + k] = res['counters'].get('feat_' + k, 0) + 1
        if v is not None and len(res['violations']) < 40:
            res['violations'].append(v)
        if len(res['samples']) < 2 and len(lbls) == depth and ('same_after_gap' in fts or 'order_swap' in fts or 'nometa_after_flip' in fts):
            res['samples'].append({'history': G.describe(mkhist(lbls)), 'outcome': outcome, 'features': sorted(fts)})
        if forb or len(lbls) >= depth:
            return
        for l in alpha:
            rec(lbls + [l])

    rec(list(prefix))
    return res


def _variant_worker(item):
    """every depth-2 history over the structural alphabet under every (interleaved, big-endian) assignment per segment"""
    l1, aname, seed = item
    alpha = _alphabet(aname)
    res = {'counters': {'histories': 0, 'nontrivial': 0}, 'outcomes': {}, 'violations': [], 'samples': []}
    import itertools as it
    for l2 in alpha:
        lbls = [l1, l2]
        for f in it.product((0, 1), repeat=4):
            if not any(f):
                continue
            flags = [(f[0], f[2]), (f[1], f[3])]
            outcome, v, _k, _forb, _ref = check_history(lbls, seed, differential=False, flags=flags)
            if outcome == 'skipped-malformed-interleaving':
                continue
            res['counters']['histories'] += 1
            res['counters']['nontrivial'] += 1
            res['outcomes'][outcome] = res['outcomes'].get(outcome, 0) + 1
            if v is not None and len(res['violations']) < 20:
                res['violations'].append(v)
    return res


def check_raw_history(hist, seed):
    """a history given as segments (not labels): reference + explicit-encoding oracle, eager and lazy"""
    ref = G.interpret(hist, seed=seed, lenient=True, filler_phase=seed)
    data = G.encode(hist, seed=seed, ref=ref, filler_phase=seed)[0]
    if ref.forbidden:
        return 'skipped-forbidden', None
    oe = H.observe(data, lazy=False)
    for mode, o in (('eager', oe), ('lazy', H.observe(data, lazy=True))):
        if o[0] != 'ok':
            return 'raised', ('valid history raised %s: %s' % (o[1], o[2]), mode, 'raised')
        why = H.compare_with_ref(o[1], ref)
        if why:
            return 'differs', (why, mode, 'differs-from-reference')
    dx = G.encode(G.explicit(hist, seed=seed), seed=seed, filler_phase=seed)[0]
    ox = H.observe(dx, lazy=False)
    if ox[0] != 'ok':
        return 'raised', ('explicit encoding raised %s: %s' % (ox[1], ox[2]), 'explicit', 'raised')
    if ox[1] != oe[1]:
        return 'differs', ('compact and explicit encodings read differently', 'eager', 'differs-from-explicit')
    return 'equal', None


def daqmx_histories():
    """DAQmx layouts (1-2 raw buffers, several scalers) whose later segments restate, permute, switch off or inherit indexes"""
    from . import c11
    return [h for _f, h in c11.fam_e()] + [h for _f, h in c11.fam_d()] + [h for _f, h in c11.fam_c('quick') if len(h) > 2]


def _daqmx_worker(item):
    lo, hi, seed = item
    res = {'counters': {'histories': 0, 'nontrivial': 0}, 'outcomes': {}, 'violations': [], 'samples': []}
    for hi_, hist in enumerate(daqmx_histories()[lo:hi]):
        outcome, viol = check_raw_history(hist, seed)
        res['counters']['histories'] += 1
        res['counters']['nontrivial'] += 1
        res['outcomes'][outcome] = res['outcomes'].get(outcome, 0) + 1
        if viol is not None and len(res['violations']) < 10:
            res['violations'].append({'case': {'daqmx_history': lo + hi_, 'seed': seed}, 'expected': 'reads as reference interpretation',
                                      'observed': viol[0], 'signature': {'kind': viol[2], 'mode': viol[1], 'family': 'daqmx'}})
    return res


def _bfs_worker(item):
    """Execute every transition out of one state (given by its representative history)."""
    lbls, aname, seed = item
    alpha = _alphabet(aname)
    out = {'children': [], 'violations': [], 'outcomes': {}, 'n': 0}
    for li, l in enumerate(alpha):
        h = lbls + [l]
        outcome, v, key, forb, _ref = check_history(h, seed, want_key=True, differential=False)
        out['n'] += 1
        out['outcomes'][outcome] = out['outcomes'].get(outcome, 0) + 1
        if v is not None and len(out['violations']) < 10:
            out['violations'].append(v)
        if key is not None and v is None:
            out['children'].append((li, key))
    return out


_ALPHA_CACHE = {}


def _small_labels(orders):
    """labels over channel a in {F1,F2,SAME} with b either absent or restated (F1), for the given listing orders, with and
    without a new object list, plus the metadata-less segment: small enough for a depth-4 tree"""
    out = [{'meta': False, 'chunks': 1}]
    for newlist in (True, False):
        for e in ('F1', 'F2', 'SAME'):
            for order in orders:
                ents = [[ch, e if ch == 'a' else 'F1'] for ch in order]
                out.append({'meta': True, 'newlist': newlist, 'entries': ents, 'chunks': 1, 'prop': False})
    return out


def _alphabet(name):
    if name == 'A2q' and name not in _ALPHA_CACHE:
        _ALPHA_CACHE[name] = _small_labels(['a', 'ab'])
    if name == 'A2r' and name not in _ALPHA_CACHE:
        _ALPHA_CACHE[name] = _small_labels(['a', 'b', 'ab', 'ba'])
    if name not in _ALPHA_CACHE:
        chans, encs, chunks, props = {
            'A2s': ('ab', ['F1', 'F2', 'SAME', 'NODATA'], [1], False),
            'A2': ('ab', ['F1', 'F2', 'FX', 'SAME', 'NODATA'], [1, 2], True),
            # declarations that contribute no values: zero-length indexes and segments without any chunk
            'A2z': ('ab', ['F0', 'F1', 'FX', 'SAME', 'NODATA'], [0, 1], False),
            # type changes between types that have no NumPy type (TimeStamp <-> String) and float <-> float-with-unit
            'A2n': ('de', ['F1', 'FX', 'SAME'], [1], False),
            'A2f': ('fa', ['F1', 'FX', 'SAME'], [1], False),
            'A2x': ('ab', ['F1', 'F2', 'FX', 'SAME', 'NODATA'], [1], False),
            'A3s': ('abc', ['F1', 'F2', 'SAME', 'NODATA'], [1], False),
            'A3c': ('abc', ['F1', 'F2', 'SAME', 'NODATA'], [1, 2], False),
            'A3r': ('abc', {'a': ['F1', 'F2', 'SAME', 'NODATA'], 'b': ['F1', 'SAME', 'NODATA'], 'c': ['F1', 'SAME', 'NODATA']}, [1], False),
        }[name]
        _ALPHA_CACHE[name] = labels(chans, encs, chunks, props)
    return _ALPHA_CACHE[name]


def run(ctx):
    seed = ctx.seed
    from ..run import merge
    cov = {'full_tree': [], 'bfs': {}}
    results = []
    # (i) full trees
    # (depth 4 over 13 / 25 labels: histories in which identical segment bytes recur after the meaning of 'same as before' changed)
    trees = [('A2', 2), ('A2s', 3), ('A2z', 2), ('A2q', 4), ('A2n', 2), ('A2f', 2)] if ctx.tier == 'quick' else \
        [('A2', 2), ('A2x', 3), ('A3r', 2), ('A2z', 2), ('A2r', 4), ('A2n', 3), ('A2f', 3)]
    for aname, depth in trees:
        alpha = _alphabet(aname)
        if depth >= 3:
            prefixes = [[l1, l2] for l1 in alpha for l2 in alpha]
            # depth-1 and depth-2 histories themselves are covered by the prefixes' own execution
            items = [([l1], 1, aname, seed) for l1 in alpha] + [(p, depth, aname, seed) for p in prefixes]
            # prefixes [l1,l2] are executed as part of rec(); forbidden prefixes stop there.
        else:
            items = [([l1], depth, aname, seed) for l1 in alpha]
        rs = ctx.map(_tree_worker, items, chunksize=4)
        m = merge(rs)
        cov['full_tree'].append({'alphabet': aname, 'labels': len(alpha), 'depth': depth,
                                 'histories': m['counters'].get('histories', 0)})
        results.append(m)
    # (i') layout / byte-order variants of every depth-2 structural history
    mv = merge(ctx.map(_variant_worker, [(l1, 'A2s', seed) for l1 in _alphabet('A2s')], chunksize=2))
    cov['full_tree'].append({'alphabet': 'A2s x (interleaved, big-endian) per segment', 'labels': len(_alphabet('A2s')), 'depth': 2,
                             'histories': mv['counters'].get('histories', 0)})
    results.append(mv)
    # (i'') DAQmx segments: the same encodings over raw-buffer layouts
    nd = len(daqmx_histories())
    md = merge(ctx.map(_daqmx_worker, [(i, min(nd, i + 20), seed) for i in range(0, nd, 20)]))
    cov['full_tree'].append({'alphabet': 'DAQmx layouts x (restated, permuted scalers, row change, no-data, same-as-before, metadata-less)',
                             'labels': nd, 'depth': 3, 'histories': md['counters'].get('histories', 0)})
    results.append(md)
    tree = merge([{'counters': r['counters'], 'outcomes': r['outcomes'], 'violations': r['violations'],
                   'samples': r['samples']} for r in results])
    # (ii) BFS to fixpoint
    aname = 'A2' if ctx.tier == 'quick' else 'A3r'
    alpha = _alphabet(aname)
    seen = {}
    frontier = [[]]
    seen['<initial>'] = []
    transitions = 0
    merged = 0
    depth = 0
    bfs_out = {}
    bfs_viol = []
    fixpoint = False
    while frontier:
        if ctx.expired():
            ctx.cap('BFS stopped by VERIF_BUDGET_S at depth %d with %d frontier states' % (depth, len(frontier)))
            break
        if len(seen) > (5000 if ctx.tier == "quick" else 40000) or depth > 12:
            # on the current tree the fixpoint is reached with ~1400 states at depth 4 (quick alphabet); a tree on which the implementation
            # fingerprint never repeats would make the search unbounded - stop, and say so (the run is then not exhaustive)
            ctx.cap('BFS stopped without a fixpoint: %d states at depth %d (state keys do not converge on this tree)' % (len(seen), depth))
            break
        rs = ctx.map_ordered(_bfs_worker, [(h, aname, seed) for h in frontier])
        nxt = []
        for h, r in zip(frontier, rs):
            transitions += r['n']
            for k, v in r['outcomes'].items():
                bfs_out[k] = bfs_out.get(k, 0) + v
            bfs_viol.extend(r['violations'])
            for li, key in r['children']:
                if key in seen:
                    merged += 1
                else:
                    seen[key] = h + [alpha[li]]
                    nxt.append(h + [alpha[li]])
        frontier = nxt
        depth += 1
        if not frontier:
            fixpoint = True
    cov['bfs'] = {'alphabet': aname, 'labels': len(alpha), 'states': len(seen), 'transitions': transitions,
                  'merged_transitions': merged, 'fixpoint': fixpoint, 'max_depth': depth - (1 if fixpoint else 0),
                  'outcomes': bfs_out}
    total = tree['counters'].get('histories', 0) + transitions
    outcomes = dict(tree['outcomes'])
    for k, v in bfs_out.items():
        outcomes[k] = outcomes.get(k, 0) + v
    feats = {k[5:]: v for k, v in tree['counters'].items() if k.startswith('feat_')}
    vac = []
    for need in ('same_after_gap', 'order_swap', 'nometa_after_flip', 'same_with_newlist'):
        if not feats.get(need):
            vac.append('no history exercised ' + need)
    if md['outcomes'].get('skipped-forbidden'):
        vac.append('%d DAQmx histories are forbidden by the reference model (the family is meant to be well-formed)' % md['outcomes']['skipped-forbidden'])
    if not outcomes.get('equal') or not outcomes.get('raised_as_required'):
        vac.append('accepted and rejected histories were not both observed')
    coverage = {
        'states': len(seen), 'transitions': transitions, 'traces_validated_against_impl': total,
        'evaluations': total, 'distinct_nontrivial': tree['counters'].get('nontrivial', 0),
        'rule': 'distinct segment histories (full tree, no merging) with >=2 segments and >=1 non-FULL encoding, '
                'metadata-less segment, append-mode list or property update; BFS transitions counted separately',
        'full_tree': cov['full_tree'], 'bfs': cov['bfs'], 'outcomes': outcomes, 'features': feats,
        'samples': tree['samples'][:6], 'exhaustive': True, 'vacuity_failures': vac,
        'modes': ['eager TdmsFile.read', 'lazy TdmsFile.open + channel[:]', 'explicit re-encoding (differential)'],
    }
    return coverage, tree['violations'] + bfs_viol


def replay(case):
    if 'daqmx_history' in case:
        outcome, viol = check_raw_history(daqmx_histories()[case['daqmx_history']], case.get('seed', 0))
        return (viol is not None), 'reads as reference interpretation', viol[0] if viol else outcome
    fl = case.get('flags')
    outcome, v, _k, forb, _ref = check_history(case['labels'], case.get('seed', 0), flags=[tuple(x) for x in fl] if fl else None)
    if v is None:
        return False, 'reads as reference / rejected as required', outcome
    return True, v['expected'], v['observed']
