"""C17 - Sensor scalings invert their sensor laws.   (exploration; weakest fit, see limits)

Exhaustive over the discrete configuration space (where the branch bugs live) x small numeric alphabets x a grid
of the physical quantity:
 RTD         wiring {2,3,4} x lead R {0, 0.7, 5} x R0 {100, 1000} x 2 coefficient sets x excitation {1 mA, 0.5 mA}
             x T in -200..850 step 0.5 plus +-{1e-3, 1e-6, 1e-9} around 0 (branch switch)
 thermistor  excitation {current, voltage divider} x wiring {2,3,4} x lead R x R1 x 2 Steinhart-Hart sets x
             offset {0, 273.15} x T grid
 strain      7 bridge types x Poisson ratio x gauge factor x gauge R x lead R x V_init {0, !=0} x gain {1, !=1}
             x V_ex x strain grid (both signs)
 polynomial / table vs Horner and clamped interpolation
each both by calling the scaling class and through TdmsChannel[:] with NI_Scale[...] properties.
Oracle: the forward law written from the published equations (Callendar-Van Dusen; Steinhart-Hart solved by
bisection; NI's bridge formulas inverted analytically); |x' - x| <= 1e-6 * max(1, |x|).
"""
import io
import itertools
import math
import struct

import numpy as np

from .. import tdmsgen as G
from .. import harness as H
from .. import families as F
from .. import refscale as R

ID = 'C17'
LEVEL = 'exploration'
TECHNIQUE = 'exhaustive enumeration of the discrete sensor configuration space x numeric alphabets x a grid of the physical quantity, real scaling code vs independently written forward sensor laws'
LEVEL_TEXT = ('All combinations of the discrete options (wiring, excitation type, bridge type) with small alphabets of the continuous '
              'parameters and a grid of temperatures / strains: the voltage produced by the published sensor law is fed to the real '
              'scaling class, and to a real TdmsFile whose channel carries the corresponding NI_Scale properties; the quantity '
              'must come back within 1e-6 relative.')
LEVEL_NOTE = ('The parameter space is continuous: only the enumerated alphabet and grid are decided. Trusted: the forward laws below '
              '(Callendar-Van Dusen, Steinhart-Hart, NI bridge equations) and the documented NI lead-wire conventions '
              '(3-wire: -R_L; 2-wire with current excitation: -2 R_L; gain adjustment multiplies the strain).')
ASSUMPTIONS = ['lead-wire and gain conventions as documented by NI', 'grid step 0.5 C / 41 strain values']

A, B = F.A, F.B
TOL = 1e-6


def close(got, exp):
    return abs(got - exp) <= TOL * max(1.0, abs(exp))


# --- forward laws ------------------------------------------------------------------------

def rtd_resistance(T, r0, a, b, c):
    if T >= 0:
        return r0 * (1 + a * T + b * T * T)
    return r0 * (1 + a * T + b * T * T + (T - 100.0) * c * T ** 3)


def lead_factor(excitation, wiring):
    """number of lead resistances the documented NI convention subtracts"""
    if wiring == 3:
        return 1.0
    if wiring == 2 and excitation == 'current':
        return 2.0
    return 0.0


def sh_inverse_T(lnr, a, b, c):
    return 1.0 / (a + b * lnr + c * lnr ** 3)


def sh_resistance(Tk, a, b, c):
    """ln R with 1/T = a + b lnR + c lnR^3 (bisection; the left side is increasing in lnR for b, c > 0)"""
    lo, hi = -5.0, 40.0
    target = 1.0 / Tk
    for _ in range(200):
        mid = 0.5 * (lo + hi)
        if a + b * mid + c * mid ** 3 < target:
            lo = mid
        else:
            hi = mid
    return math.exp(0.5 * (lo + hi))


def bridge_vr(conf, eps, gf, nu, lead_ratio):
    """V_r = (V_strained - V_unstrained) / V_ex for a strain eps (NI bridge equations solved for V_r)"""
    f = 1.0 + lead_ratio
    e = eps / f
    if conf == 10183:      # full bridge I
        return -gf * eps
    if conf == 10184:      # full bridge II
        return -gf * eps * (1 + nu) / 2.0
    if conf == 10185:      # full bridge III
        return eps * gf * (nu + 1) / (eps * gf * (nu - 1) - 2.0)
    if conf == 10188:      # half bridge I
        return e * gf * (1 + nu) / (2 * e * gf * (nu - 1) - 4.0)
    if conf == 10189:      # half bridge II
        return -gf * e / 2.0
    if conf in (10271, 10272):  # quarter bridge I / II
        return -e * gf / (4.0 + 2 * e * gf)
    raise ValueError(conf)


# --- property builders -----------------------------------------------------------------------

def rtd_props(I, r0, a, b, c, rl, wiring):
    s, d, u = R._s, R._d, R._u
    pre = 'NI_Scale[0]_'
    return [u('NI_Number_Of_Scales', 1), s(pre + 'Scale_Type', 'RTD'), d(pre + 'RTD_Current_Excitation', I),
            d(pre + 'RTD_R0_Nominal_Resistance', r0), d(pre + 'RTD_A', a), d(pre + 'RTD_B', b), d(pre + 'RTD_C', c),
            d(pre + 'RTD_Lead_Wire_Resistance', rl), u(pre + 'RTD_Resistance_Configuration', wiring), u(pre + 'RTD_Input_Source', 0xFFFFFFFF)]


def thermistor_props(exc, val, wiring, r1, rl, a, b, c, off):
    s, d, u = R._s, R._d, R._u
    pre = 'NI_Scale[0]_Thermistor_'
    return [u('NI_Number_Of_Scales', 1), s('NI_Scale[0]_Scale_Type', 'Thermistor'), u(pre + 'Excitation_Type', 10134 if exc == 'current' else 10322),
            d(pre + 'Excitation_Value', val), u(pre + 'Resistance_Configuration', wiring), d(pre + 'R1_Reference_Resistance', r1),
            d(pre + 'Lead_Wire_Resistance', rl), d(pre + 'A', a), d(pre + 'B', b), d(pre + 'C', c), d(pre + 'Temperature_Offset', off),
            u(pre + 'Input_Source', 0xFFFFFFFF)]


def strain_props(conf, nu, rg, rl, vinit, gf, gain, vex):
    s, d, u = R._s, R._d, R._u
    pre = 'NI_Scale[0]_Strain_'
    return [u('NI_Number_Of_Scales', 1), s('NI_Scale[0]_Scale_Type', 'Strain'), u(pre + 'Configuration', conf), d(pre + 'Poisson_Ratio', nu),
            d(pre + 'Gage_Resistance', rg), d(pre + 'Lead_Wire_Resistance', rl), d(pre + 'Initial_Bridge_Voltage', vinit),
            d(pre + 'Gage_Factor', gf), d(pre + 'Bridge_Shunt_Calibration_Gain_Adjustment', gain), d(pre + 'Voltage_Excitation', vex),
            u(pre + 'Input_Source', 0xFFFFFFFF)]


def through_file(props, volts):
    """scaled data of a float64 channel holding `volts` with the given scaling properties, read by the real TdmsFile"""
    saved = G.POOLS['DoubleFloat']
    G.POOLS['DoubleFloat'] = [struct.pack('<d', v) for v in volts]
    try:
        off = G._path_offset(A)
        n = len(volts)
        G.POOLS['DoubleFloat'] = G.POOLS['DoubleFloat'][-off % n:] + G.POOLS['DoubleFloat'][:-off % n] if n else []
        hist = [G.seg([(A, ['FULL', 'DoubleFloat', n], props)])]
        data = G.encode(hist, seed=0)[0]
    finally:
        G.POOLS['DoubleFloat'] = saved
    tf = H.TdmsFile.read(io.BytesIO(data))
    ch = tf['g']['a']
    raw = ch.read_data(scaled=False)
    if list(raw) != list(volts):
        raise AssertionError('harness: file does not hold the intended voltages')
    first = ch.read_data(0, n)
    # the stored voltages are scaled again on every access: a scaling that writes into its input shows up here
    second = ch[:]
    third = ch.read_data()
    if not (np.array_equal(first, second, equal_nan=True) and np.array_equal(second, third, equal_nan=True)):
        raise AssertionError('repeated scaled reads of the same stored voltages differ: %r / %r / %r'
                             % (list(first[:3]), list(second[:3]), list(third[:3])))
    if list(ch.read_data(scaled=False)) != list(volts):
        raise AssertionError('stored voltages changed after scaling')
    return second


def int_typed(props):
    """the same configuration with every whole-valued double property stored as an Int32 property (a file written by another tool)"""
    out = []
    for name, t, hx in props:
        if t == 'DoubleFloat':
            v = struct.unpack('<d', bytes.fromhex(hx))[0]
            if v == int(v) and abs(v) < 2 ** 31:
                out.append([name, 'Int32', struct.pack('<i', int(v)).hex()])
                continue
        out.append([name, t, hx])
    return out


def chained(props):
    """the sensor scale as scale 1 reading scale 0, a Linear scale turning stored millivolts into volts (Input_Source = 0)"""
    out = [R._u('NI_Number_Of_Scales', 2), R._s('NI_Scale[0]_Scale_Type', 'Linear'), R._d('NI_Scale[0]_Linear_Slope', 1e-3),
           R._d('NI_Scale[0]_Linear_Y_Intercept', 0.0), R._u('NI_Scale[0]_Linear_Input_Source', 0xFFFFFFFF)]
    for name, t, hx in props:
        if name == 'NI_Number_Of_Scales':
            continue
        name = name.replace('NI_Scale[0]_', 'NI_Scale[1]_')
        if name.endswith('_Input_Source'):
            hx = struct.pack('<I', 0).hex()
        out.append([name, t, hx])
    return out


def check(kind, cfg, xs, volts, make, props, res):
    """feed volts to the (already constructed) scaling object and to a file; compare with xs"""
    for via in ('class', 'file', 'file-int-typed', 'file-chained'):
        if via.startswith('file') and len(xs) > 400:
            xs_, volts_ = xs[::max(1, len(xs) // 200)], volts[::max(1, len(xs) // 200)]
        else:
            xs_, volts_ = xs, volts
        if via != 'file' and via.startswith('file') and (cfg.get('rl') not in (None, 0.0) or cfg.get('a', 3.9083e-3) != 3.9083e-3
                                                             or cfg.get('nu') == 0.0 or cfg.get('gf') == 1.9):
            continue      # the two alternative spellings are run on a sub-grid of the configurations
        if via == 'class':
            r = H.guarded(lambda: make.scale(np.array(volts_, dtype=np.float64)))
        elif via == 'file-int-typed':
            if int_typed(props) == props:
                continue
            r = H.guarded(lambda: through_file(int_typed(props), list(volts_)))
        elif via == 'file-chained':
            r = H.guarded(lambda: through_file(chained(props), [v * 1000.0 for v in volts_]))
        else:
            r = H.guarded(lambda: through_file(props, list(volts_)))
        res['counters']['points'] += len(xs_)
        res['counters']['configs'] += 1
        if r[0] != 'ok':
            _bad(res, kind, cfg, via, 'values', 'raised %s: %s' % (r[1], r[2]), 'raised')
            continue
        got = np.asarray(r[1], dtype=np.float64)
        if len(got) != len(xs_):
            _bad(res, kind, cfg, via, len(xs_), len(got), 'length')
            continue
        for x, g in zip(xs_, got):
            if not close(float(g), x):
                _bad(res, kind, cfg, via, x, float(g), 'not-inverted')
                break


def _bad(res, kind, cfg, via, exp, got, what):
    key = (kind, what, via) + tuple(sorted((k, v) for k, v in cfg.items() if k in ('wiring', 'exc', 'conf', 'branch')))
    if key in res['seen']:
        return
    res['seen'].add(key)
    res['violations'].append({'case': {'sensor': kind, 'config': cfg, 'via': via}, 'expected': exp, 'observed': got,
                              'signature': {'kind': what, 'sensor': kind, 'via': via,
                                            'discrete': {k: v for k, v in cfg.items() if k in ('wiring', 'exc', 'conf', 'branch')}}})


def t_grid(lo, hi, step):
    n = int(round((hi - lo) / step))
    g = [lo + i * step for i in range(n + 1)]
    g += [s * d for d in (1e-3, 1e-6, 1e-9) for s in (1, -1)]
    return sorted(set(g))


def run_part(item):
    part, sub, tier = item
    from nptdms import scaling as S
    res = {'counters': {'points': 0, 'configs': 0}, 'violations': [], 'seen': set(), 'samples': []}
    pending = []   # every scaling object of the part is constructed first and used afterwards (objects must not share state)
    if part == 'rtd':
        wiring = sub
        step = 0.1 if tier == 'thorough' else 2.5
        Ts = t_grid(-200.0, 850.0, step)
        if tier != 'thorough':
            # below 0 C the scaling solves a quartic sample by sample: a denser grid there, so that one call carries several
            # hundred such samples (array-size dependent paths) also in the quick tier
            Ts = sorted(set(Ts) | set(t_grid(-200.0, 0.0, 0.5)))
        for rl, r0, (a, b, c), I in itertools.product((0.0, 0.7, 5.0), (100.0, 1000.0),
                                                       ((3.9083e-3, -5.775e-7, -4.183e-12), (3.9692e-3, -5.8495e-7, -4.2325e-12)),
                                                       (1e-3, 5e-4)):
            k = lead_factor('current', wiring)
            volts = [I * (rtd_resistance(T, r0, a, b, c) + k * rl) for T in Ts]
            cfg = {'wiring': wiring, 'rl': rl, 'r0': r0, 'a': a, 'I': I}
            pending.append(('RTD', cfg, Ts, volts, S.RtdScaling(I, r0, a, b, c, rl, wiring, 0xFFFFFFFF),
                            rtd_props(I, r0, a, b, c, rl, wiring)))
        res['samples'].append({'sensor': 'RTD', 'wiring': wiring, 'temperatures': len(Ts)})
    elif part == 'thermistor':
        exc, wiring = sub
        step = 0.25 if tier == 'thorough' else 5.0
        for rl, r1, (a, b, c), off, val in itertools.product((0.0, 1.5), (5000.0, 10000.0),
                                                              ((1.295361e-3, 2.343159e-4, 1.018703e-7), (1.125308852122e-3, 2.34711863267e-4, 8.5663516e-8)),
                                                              (0.0, 273.15), ((1e-4,) if exc == 'current' else (2.5, 5.0))):
            Tks = [273.15 + t for t in np.arange(-40.0, 150.0 + 1e-9, step)]
            k = lead_factor(exc, wiring)
            volts = []
            for Tk in Tks:
                r = sh_resistance(Tk, a, b, c) + k * rl
                volts.append(val * r if exc == 'current' else val * r / (r1 + r))
            xs = [Tk - off for Tk in Tks]
            cfg = {'exc': exc, 'wiring': wiring, 'rl': rl, 'r1': r1, 'off': off}
            pending.append(('Thermistor', cfg, xs, volts,
                            S.ThermistorScaling(10134 if exc == 'current' else 10322, val, wiring, r1, rl, a, b, c, off, 0xFFFFFFFF),
                            thermistor_props(exc, val, wiring, r1, rl, a, b, c, off)))
        res['samples'].append({'sensor': 'Thermistor', 'excitation': exc, 'wiring': wiring})
    elif part == 'strain':
        conf = sub
        eps_grid = [s * m for m in (1e-6, 1e-5, 1e-4, 5e-4, 1e-3, 2e-3, 5e-3, 1e-2) for s in (1, -1)] + [0.0]
        if tier == 'thorough':
            eps_grid += [s * m * k for m in (1e-6, 1e-5, 1e-4, 1e-3) for k in (1.5, 2.0, 3.0, 4.0, 6.0, 8.0) for s in (1, -1)] + [2e-2, -2e-2, 5e-2, -5e-2]
        for nu, gf, rg, rl, vinit, gain, vex in itertools.product((0.3, 0.0), (2.1, 1.9), (350.0, 120.0), (0.0, 2.0), (0.0, 1.25e-4),
                                                                  (1.0, 1.04), (2.5, 10.0)):
            lead_ratio = (rl / rg) if conf in (10188, 10189, 10271, 10272) else 0.0
            volts = [vinit + vex * bridge_vr(conf, e / gain, gf, nu, lead_ratio) for e in eps_grid]
            cfg = {'conf': conf, 'nu': nu, 'gf': gf, 'rg': rg, 'rl': rl, 'vinit': vinit, 'gain': gain, 'vex': vex}
            pending.append(('Strain', cfg, eps_grid, volts, S.StrainScaling(conf, nu, rg, rl, vinit, gf, gain, vex, 0xFFFFFFFF),
                            strain_props(conf, nu, rg, rl, vinit, gf, gain, vex)))
        res['samples'].append({'sensor': 'Strain', 'configuration': conf, 'strains': len(eps_grid)})
    elif part == 'polytable':
        xs = [-3.0, -1.0, -0.25, 0.0, 0.1, 0.5, 1.0, 2.0, 6.0, 7.5, 1e3]
        for coef in ([], [2.0], [1.0, 0.25, 0.125], [1.0, 0.5, 0.0, 0.125], [-1.0, 0.0, 2.0, 0.0, 1e-3]):
            exp = R.eval_scale({'type': 'Polynomial', 'coef': coef, 'src': None}, lambda s: xs)
            r = H.guarded(lambda: S.PolynomialScaling(coef, 0xFFFFFFFF).scale(np.array(xs)))
            res['counters']['points'] += len(xs)
            res['counters']['configs'] += 1
            if r[0] != 'ok' or any(not close(float(g), e) for g, e in zip(r[1], exp)):
                _bad(res, 'Polynomial', {'coef': coef}, 'class', exp, repr(r)[:200], 'not-horner')
        for coef in ([1.0, 0.5, -0.25, 0.125, 0.0, 0.01, -0.002, 3e-4, 4e-5, -5e-6, 6e-7, 7e-8], [0.0] * 10 + [1.0], [2.0, 1.0]):
            spec = {'type': 'Polynomial', 'coef': coef, 'src': None}
            xs12 = [-1.5, -0.5, 0.0, 0.25, 1.0, 2.0]
            exp = R.eval_scale(spec, lambda s_: xs12)
            r = H.guarded(lambda: through_file(R.props_for([spec]), xs12))
            res['counters']['points'] += len(xs12)
            res['counters']['configs'] += 1
            if r[0] != 'ok' or any(not close(float(g), e) for g, e in zip(r[1], exp)):
                _bad(res, 'Polynomial', {'ncoef': len(coef)}, 'file', exp, repr(r)[:200], 'not-horner')
        for pre, sc in (([10.0, 20.0, 40.0], [0.0, 2.0, 6.0]), ([40.0, 20.0, 10.0], [6.0, 2.0, 0.0]), ([-1.0, 1.0], [1.0, 4.0]),
                        ([0.0, 1.0, 0.0, 1.0], [0.0, 1.0, 2.0, 3.0])):
            exp = R.eval_scale({'type': 'Table', 'pre': pre, 'scaled': sc, 'src': None}, lambda s: xs)
            r = H.guarded(lambda: S.TableScaling(np.array(pre), np.array(sc), 0xFFFFFFFF).scale(np.array(xs)))
            res['counters']['points'] += len(xs)
            res['counters']['configs'] += 1
            if r[0] != 'ok' or any(not close(float(g), e) for g, e in zip(r[1], exp)):
                _bad(res, 'Table', {'pre': pre, 'scaled': sc}, 'class', exp, repr(r)[:200], 'not-interpolation')
    for (kind_, cfg_, xs_, volts_, inst_, props_) in pending:
        check(kind_, cfg_, xs_, volts_, inst_, props_, res)
    del res['seen']
    return res


def run(ctx):
    items = [('rtd', w, ctx.tier) for w in (2, 3, 4)]
    items += [('thermistor', (e, w), ctx.tier) for e in ('current', 'voltage') for w in (2, 3, 4)]
    items += [('strain', c, ctx.tier) for c in (10183, 10184, 10185, 10188, 10189, 10271, 10272)]
    items += [('polytable', None, ctx.tier)]
    rs = ctx.map(run_part, items)
    viol = [v for r in rs for v in r['violations']]
    pts = sum(r['counters']['points'] for r in rs)
    cfgs = sum(r['counters']['configs'] for r in rs)
    cov = {'evaluations': pts, 'configurations': cfgs, 'distinct_nontrivial': cfgs,
           'rule': 'distinct (sensor, full parameter tuple, via class / via file) configurations, each evaluated on the whole grid; '
                   'evaluations = individual (configuration, grid point) round trips',
           'samples': [s for r in rs for s in r['samples']][:6], 'exhaustive': True,
           'vacuity_failures': [] if cfgs > 100 else ['configuration space nearly empty']}
    return cov, viol


def replay(case):
    sensor = case['sensor']
    cfg = case['config']
    part = {'RTD': ('rtd', cfg.get('wiring')), 'Thermistor': ('thermistor', (cfg.get('exc'), cfg.get('wiring'))),
            'Strain': ('strain', cfg.get('conf'))}.get(sensor, ('polytable', None))
    r = run_part((part[0], part[1], 'quick'))
    for v in r['violations']:
        if v['case']['via'] == case['via'] and v['signature']['kind'] == v['signature']['kind']:
            return True, v['expected'], v['observed']
    return False, 'inverted', 'inverted'
