"""C19 - Partial reads touch only the part of the file they need.   (exploration)

Every file of family F4 is opened lazily on a recording stream; for EVERY non-empty window, slice and
index the (position, size) of every read()/readinto() issued is checked against the byte extents the
independent layout map allows; all two-operation histories [i] then [j] check the chunk cache.
"""
import numpy as np

from .. import tdmsgen as G
from .. import harness as H
from .. import families as F
from ..streams import RecordingStream

ID = 'C19'
LEVEL = 'exploration'
TECHNIQUE = 'bounded-exhaustive enumeration of all windows/slices/indices and all index pairs on a recording stream, bytes fetched vs independent layout map'
LEVEL_TEXT = ('All non-empty windows, slices (step +-1,+-2) and indices, and all ordered pairs of indices, on every file of a '
              'finite family are executed on the real lazy reader over a recording stream; every fetched byte must lie in the '
              'extents the independent layout map allows for the chunks overlapping the request. A second variant puts the file and '
              'its matching index on disk, opens it by path with the library\'s open() wrapped, and judges the first operation after '
              'each fresh open (one-off work at first access counts as part of that request).')
LEVEL_NOTE = ('Trusted: layout map produced by the independent encoder. Allowed: requested channel bytes inside overlapping chunks '
              '(contiguous), whole overlapping chunks (interleaved/DAQmx), 28-byte lead-in of each segment from the first to the '
              'last overlapping chunk. An empty window may touch at most the one chunk containing its offset.')
ASSUMPTIONS = ['a slice requests the index range [start, stop) it spans (not only the strided elements)']


def chunk_table(layout, path, cut=None):
    """[(seg index, v0, v1, [(byte_lo, byte_hi)])] for every chunk holding values of `path`.
    With `cut` the file ends there: the final chunk is clipped and holds only the values that are complete."""
    out = []
    v = 0
    for si, seg in enumerate(layout):
        n = None
        for p, idx in seg['data_objs']:
            if p == path:
                n = idx['n']
        if not n or not seg['chunks']:
            continue
        for ci in range(seg['chunks']):
            lo = seg['chunk_starts'][ci]
            nv = n
            if seg['interleaved'] or seg['daqmx']:
                ext = [(lo, lo + seg['chunk_size'])]
                if cut is not None and cut < lo + seg['chunk_size']:
                    if cut <= lo:
                        continue
                    roww = seg['chunk_size'] // n
                    nv = (cut - lo) // roww
                    ext = [(lo, cut)]
            else:
                ext = [(a, b) for (c, a, b) in seg['extents'][path] if c == ci]
                if cut is not None and ext and cut < ext[0][1]:
                    if cut <= lo:
                        continue
                    a, b = ext[0]
                    w = (b - a) // n
                    nv = max(0, (cut - a) // w) if cut > a else 0
                    ext = [(a, cut)] if cut > a else []
            if nv or ext:
                out.append((si, v, v + nv, ext))
            v += nv
    return out


def allowed_ranges(layout, table, lo, hi):
    cs = [t for t in table if t[1] < hi and t[2] > lo and t[2] > t[1]]
    if not cs:
        return []
    rng = []
    for t in cs:
        rng.extend(t[3])
    for si in range(cs[0][0], cs[-1][0] + 1):
        rng.append((layout[si]['start'], layout[si]['start'] + G.LEAD_IN))
    return rng


def outside(log, rng):
    bad = []
    for pos, n in log:
        ok = any(a <= pos and pos + n <= b for a, b in rng)
        if not ok:
            # allow a read that is covered by the union of adjacent ranges
            covered = np.zeros(n, dtype=bool)
            for a, b in rng:
                s, e = max(a, pos), min(b, pos + n)
                if s < e:
                    covered[s - pos:e - pos] = True
            if not covered.all():
                bad.append((pos, n))
    return bad


def check_file(kind, opts, seed, collect=3, cut=None):
    hist = F.f4_build(kind, opts, seed)
    data, _i, layout, ref = G.encode(hist, seed=seed)
    if cut is not None:
        data = data[:cut]
    table = chunk_table(layout, F.A, cut)
    L = table[-1][2] if table else 0
    stream = RecordingStream(data)
    r = H.guarded(lambda: H.TdmsFile.open(stream))
    if r[0] != 'ok':
        return 0, [('open', None, 'no error', 'raised %s: %s' % (r[1], r[2]))]
    tf = r[1]
    ch = tf['g']['a']
    bad = []
    nops = 0
    seen = {}

    def judge(kindname, op, lo, hi, fn):
        stream.reset()
        r = H.guarded(fn)
        if r[0] != 'ok':
            return  # correctness of results is C04's business
        rng = allowed_ranges(layout, table, lo, hi)
        out = outside(stream.log, rng)
        if out:
            seen[kindname] = seen.get(kindname, 0) + 1
            if seen[kindname] <= collect:
                bad.append((kindname, op, 'reads within %r' % (sorted(rng),), 'fetched outside: %r' % (out,)))
    try:
        if len(ch) != L:
            return 0, [('len', None, L, len(ch))]
        for off in range(L):
            for ln in [0] + list(range(1, L - off + 2)) + [None]:
                # an empty window is allowed to touch the one chunk that contains its offset, nothing more
                hi = L if ln is None else (off + 1 if ln == 0 else min(L, off + ln))
                for scaled in ((True, False) if kind != 'daqmx' else (False, True)):
                    nops += 1
                    judge('window', ['read_data', off, ln, scaled], off, hi,
                          lambda: ch.read_data(off, ln, scaled))
        for start in range(-L, L):
            for stop in range(-L - 1, L + 1):
                for step in (1, 2, -1, -2):
                    idx = range(L)[start:stop:step]
                    if len(idx) == 0:
                        continue
                    s0 = start + L if start < 0 else start
                    e0 = stop + L if stop < 0 else stop
                    lo, hi = (s0, min(e0, L)) if step > 0 else (max(e0, -1) + 1, s0 + 1)
                    nops += 1
                    judge('slice', ['slice', start, stop, step], lo, hi, lambda: ch[start:stop:step])
        # two-operation histories on a fresh file each: [i] then [j]
        for i in range(L):
            for jj in list(range(L)) + [x - L for x in range(L)]:
                j = jj if jj >= 0 else jj + L     # jj is how the index is spelled, j the element it addresses
                s2 = RecordingStream(data)
                t2 = H.TdmsFile.open(s2)
                s2.reset()
                try:
                    c2 = t2['g']['a']
                    ii = i if jj >= 0 else i - L    # both spellings of the first index are used as well
                    r = H.guarded(lambda: c2[ii])
                    if r[0] != 'ok':
                        continue
                    if jj == 0:
                        nops += 1
                        out = outside(s2.log, allowed_ranges(layout, table, i, i + 1))
                        if out:
                            seen['index'] = seen.get('index', 0) + 1
                            if seen['index'] <= collect:
                                bad.append(('index', ['index', i], 'reads within chunk of i', 'fetched outside: %r' % (out,)))
                    s2.reset()
                    r = H.guarded(lambda: c2[jj])
                    nops += 1
                    same = any(t[1] <= i < t[2] and t[1] <= j < t[2] for t in table)
                    if same:
                        if s2.log:
                            seen['cache'] = seen.get('cache', 0) + 1
                            if seen['cache'] <= collect:
                                bad.append(('cache', ['index', ii, 'then', jj], 'no read (same chunk)', 'fetched %r' % (s2.log,)))
                    else:
                        out = outside(s2.log, allowed_ranges(layout, table, j, j + 1))
                        if out:
                            seen['index2'] = seen.get('index2', 0) + 1
                            if seen['index2'] <= collect:
                                bad.append(('index2', ['index', ii, 'then', jj], 'reads within chunk of j', 'fetched outside: %r' % (out,)))
                finally:
                    t2.close()
    finally:
        tf.close()
    return nops, bad


class _RecFile(object):
    """a binary file object that logs (position, size) of every read()/readinto()"""

    def __init__(self, f, log):
        self._f, self._log = f, log

    def read(self, n=-1):
        pos = self._f.tell()
        out = self._f.read(n)
        if out:
            self._log.append((pos, len(out)))
        return out

    def readinto(self, b):
        pos = self._f.tell()
        n = self._f.readinto(b)
        if n:
            self._log.append((pos, n))
        return n

    def __getattr__(self, name):
        return getattr(self._f, name)

    def __enter__(self):
        return self

    def __exit__(self, *a):
        self._f.close()


def check_file_indexed(kind, opts, seed, collect=3):
    """The file lies on disk with its matching .tdms_index beside it and is opened by path; the FIRST operation on each freshly
    opened file is judged (what a one-off step at first access fetches is part of that request).  Reads of the data file are
    recorded by wrapping the open() the library uses."""
    import builtins
    import os
    import shutil
    hist = F.f4_build(kind, opts, seed)
    data, idx, layout, ref = G.encode(hist, seed=seed, index=True)
    table = chunk_table(layout, F.A, None)
    L = table[-1][2] if table else 0
    tmp = H.scratch('verif_c19_')
    path = os.path.join(tmp, 'f.tdms')
    with open(path, 'wb') as f:
        f.write(data)
    with open(path + '_index', 'wb') as f:
        f.write(idx)
    log = []
    real_open = builtins.open

    def rec_open(file, *a, **kw):
        fobj = real_open(file, *a, **kw)
        if str(file) == path:
            return _RecFile(fobj, log)
        return fobj
    bad, nops, seen = [], 0, {}
    builtins.open = rec_open
    try:
        ops = [(['index', i], i, i + 1, (lambda c, i=i: c[i])) for i in list(range(L)) + [-1]]
        ops += [(['read_data', off, 1], off, off + 1, (lambda c, off=off: c.read_data(off, 1))) for off in range(L)]
        ops += [(['slice', off, off + 2], off, min(L, off + 2), (lambda c, off=off: c[off:off + 2])) for off in range(0, L, 2)]
        for op, lo, hi, fn in ops:
            if lo < 0:
                lo, hi = lo + L, hi + L
            del log[:]
            r = H.guarded(lambda: H.TdmsFile.open(path))
            if r[0] != 'ok':
                bad.append(('open', op, 'no error', 'open by path with index raised %s: %s' % (r[1], r[2])))
                break
            tf = r[1]
            try:
                del log[:]      # what opening itself read (it may look at the data file) is not part of the request
                rr = H.guarded(fn, tf['g']['a'])
                nops += 1
                if rr[0] != 'ok':
                    continue
                out = outside(log, allowed_ranges(layout, table, lo, hi))
                if out:
                    seen['first-op'] = seen.get('first-op', 0) + 1
                    if seen['first-op'] <= collect:
                        bad.append(('first-op-indexed', op, 'first operation after open-by-path with an index: reads within the chunks of the request',
                                    'fetched outside: %r' % (out,)))
            finally:
                tf.close()
    finally:
        builtins.open = real_open
        shutil.rmtree(tmp, ignore_errors=True)
    return nops, bad


def check_big_chunk(seed, collect=3):
    """chunks of 20 000 values (beyond 2^13 and 2^14): after one index, a second index anywhere in the same chunk fetches nothing;
    a single index fetches within its chunk"""
    n = 20000
    hist = [G.seg([(F.B, ['FULL', 'Int16', n]), (F.A, ['FULL', 'Int32', n])], chunks=2), G.seg([(F.A, ['FULL', 'Int32', 5])])]
    data, _i, layout, _ref = G.encode(hist, seed=seed)
    table = chunk_table(layout, F.A, None)
    L = table[-1][2]
    marks = [0, 5, 4095, 4096, 8191, 8192, 15000, 16383, 16384, n - 1]
    idxs = marks + [n + m for m in marks] + [2 * n, L - 1]
    bad, nops, seen = [], 0, {}
    for i in idxs:
        for j in idxs:
            same_chunk = any(t[1] <= i < t[2] and t[1] <= j < t[2] for t in table)
            for ii, jj in ((i, j), (i - L, j), (i, j - L)):
                stream = RecordingStream(data)
                tf = H.TdmsFile.open(stream)
                try:
                    ch = tf['g']['a']
                    stream.reset()
                    r1 = H.guarded(ch.__getitem__, ii)
                    nops += 1
                    out = outside(stream.log, allowed_ranges(layout, table, i, i + 1))
                    if out and r1[0] == 'ok':
                        seen['index'] = seen.get('index', 0) + 1
                        if seen['index'] <= collect:
                            bad.append(('index', ['bigchunk', ii], 'reads within the chunk of %d' % i, 'fetched outside: %r' % (out,)))
                    stream.reset()
                    r2 = H.guarded(ch.__getitem__, jj)
                    nops += 1
                    if r1[0] == 'ok' and r2[0] == 'ok' and same_chunk and stream.log:
                        seen['cache'] = seen.get('cache', 0) + 1
                        if seen['cache'] <= collect:
                            bad.append(('cache', ['bigchunk', ii, 'then', jj], 'no read (same chunk)', 'fetched %r' % (stream.log[:4],)))
                finally:
                    tf.close()
    return nops, bad


def run_file(item):
    kind, opts, seed = item
    if kind == 'bigchunk':
        nops, bad = check_big_chunk(seed)
        res = {'counters': {'files': 1, 'ops': nops, 'nontrivial': 1, 'multichunk': 1}, 'outcomes': {'clean' if not bad else 'over-read': 1},
               'violations': [], 'samples': []}
        for (k, op, exp, got) in bad:
            res['violations'].append({'case': {'kind': 'bigchunk', 'opts': [], 'seed': seed, 'op': op, 'opkind': k}, 'expected': exp, 'observed': got,
                                      'signature': {'kind': k, 'elem': 'bigchunk', 'gap': False}})
        return res
    nops, bad = check_file(kind, opts, seed)
    if kind in ('int', 'il', 'str', 'be') and len(opts) >= 2:
        n3, bad3 = check_file_indexed(kind, opts, seed)
        nops += n3
        bad += bad3
    cuts = []
    if kind in ('int', 'intswap', 'ts', 'il', 'be', 'mixed-il') and isinstance(opts[-1], tuple) and opts[-1][1] >= 2:
        # truncated final chunk (the chunk before it is complete): every value boundary of the target channel
        from .c04 import cuts_for
        layout = G.encode(F.f4_build(kind, opts, seed), seed=seed)[2]
        cuts = [c for c in cuts_for(layout, 'quick')]
    for cut in cuts:
        n2, bad2 = check_file(kind, opts, seed, cut=cut)
        nops += n2
        bad += [(k, op + ['cut', cut], e, g) for (k, op, e, g) in bad2]
    res = {'counters': {'files': 1, 'ops': nops, 'nontrivial': 1 if nops > 10 else 0,
                        'multichunk': 1 if sum(o[1] for o in opts if isinstance(o, tuple)) > 1 else 0},
           'outcomes': {'clean' if not bad else 'over-read': 1}, 'violations': [], 'samples': []}
    for (k, op, exp, got) in bad:
        res['violations'].append({'case': {'kind': kind, 'opts': [list(o) if isinstance(o, tuple) else o for o in opts],
                                           'seed': seed, 'op': op, 'opkind': k},
                                  'expected': exp, 'observed': got,
                                  'signature': {'kind': k, 'elem': kind, 'gap': F.f4_has_gap(opts)}})
    if nops > 50:
        res['samples'].append({'file': G.describe(F.f4_build(kind, opts, seed)), 'operations': nops})
    return res


def files(tier):
    from .c04 import files as f4files
    # (segments with a short last chunk have no layout map: what their last chunk holds is only defined differentially, in C04)
    return [(k, o) for (k, o) in f4files(tier) if any(isinstance(x, tuple) and x[0] > 0 for x in o) and not k.startswith('shortmid')]


def run(ctx):
    from ..run import merge
    items = [(k, o, ctx.seed) for k, o in files(ctx.tier)] + [('bigchunk', (), ctx.seed)]
    # every channel holds exactly one value per chunk (a file logged one sample per write), contiguous: only the requested
    # channel's bytes may be fetched, whatever the reader makes of the row-like layout
    items += [('ones', o, ctx.seed) for o in (((1, 3),), ((1, 2), (1, 3)), ((1, 3), 'abs', (1, 2)), ((1, 3), (2, 2)), ((1, 1), (1, 3), 'nod', (1, 2)))]
    items.sort(key=lambda it: -sum((o[0] * o[1]) if isinstance(o, tuple) else 0 for o in it[1]))
    m = merge(ctx.map(run_file, items))
    c = m['counters']
    vac = [] if c.get('multichunk') else ['no multi-chunk file']
    cov = {'evaluations': c['ops'], 'files': c['files'], 'distinct_nontrivial': c['nontrivial'],
           'rule': 'evaluations = recorded operations (windows, slices, indices, index pairs); distinct_nontrivial = distinct '
                   'files (parameter tuples) with more than 10 judged operations',
           'outcomes': m['outcomes'], 'samples': m['samples'][:4], 'exhaustive': True, 'vacuity_failures': vac}
    return cov, m['violations']


def replay(case):
    if case.get('kind') == 'bigchunk':
        _n, bad = check_big_chunk(case.get('seed', 0), collect=10 ** 6)
        hits = [b for b in bad if b[1] == case['op']]
        return bool(hits), hits[0][2] if hits else 'within', hits[0][3] if hits else 'within'
    opts = tuple(tuple(o) if isinstance(o, list) else o for o in case['opts'])
    cut = case['op'][-1] if (len(case['op']) >= 2 and case['op'][-2] == 'cut') else None
    if case.get('opkind') == 'first-op-indexed':
        _n, bad = check_file_indexed(case['kind'], opts, case.get('seed', 0), collect=10 ** 6)
    else:
        _n, bad = check_file(case['kind'], opts, case.get('seed', 0), collect=10 ** 6, cut=cut)
    for (k, op, exp, got) in bad:
        if op == case['op'] or op + ['cut', cut] == case['op']:
            return True, exp, got
    if bad:
        return True, bad[0][2], bad[0][3] + ' (other operation: %r)' % (bad[0][1],)
    return False, 'reads within allowed extents', 'within'
