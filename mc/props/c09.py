"""C09 - A matching index file is transparent.   (exploration)

files (F3 + extras: metadata-less segments, padding, 8 segments, big-endian, incomplete last segment)
x index in {none, produced by the independent encoder, produced by TdmsWriter for writer-made files}
x {TdmsFile.read, TdmsFile.open + every lazy read, read_metadata, index-only by path, index-only by stream}.
"""
import io
import os
import shutil
import tempfile

import numpy as np

from .. import tdmsgen as G
from .. import harness as H
from .. import families as F

ID = 'C09'
LEVEL = 'exploration'
TECHNIQUE = 'complete product of files x index variants x read modes on the real code; differential oracle (same file without index)'
LEVEL_TEXT = ('Every file of the cross-section family (plus truncated-data variants at every cut inside the last segment) is put on '
              'disk with no index, with the index made by the independent encoder and (writer-made files) with the TdmsWriter '
              'index; eager, lazy and metadata-only reads must agree with the index-free read; the index alone must give the same '
              'metadata and refuse every data read.')
LEVEL_NOTE = ('Differential oracle. Index-only metadata is judged only for complete data files with explicit offsets (lengths of a '
              'truncated or length-unknown segment are not determined by the index alone).')
ASSUMPTIONS = ['an index-only read of a zero-length channel may return an empty array (there is no data to refuse)']


def summary(tf, data=True, lazy=False):
    out = {'props': [(k, H.norm_prop(v)) for k, v in tf.properties.items()], 'groups': []}
    for g in tf.groups():
        chans = []
        for ch in g.channels():
            ent = {'path': ch.path, 'len': len(ch), 'dtype': str(ch.dtype),
                   'props': [(k, H.norm_prop(v)) for k, v in ch.properties.items()]}
            if data:
                if ch.scaler_data_types:
                    d = ch.read_data(scaled=False)
                    ent['data'] = repr(sorted((int(k), H.norm_array(v)) for k, v in d.items())) if isinstance(d, dict) else H.norm_array(d)
                else:
                    ent['data'] = H.norm_array(ch[:])
                    if lazy and len(ch):
                        ent['first'] = H.norm_scalar(ch[0])
                        ent['chunks'] = [(c.offset, H.norm_array(c[:]) if not isinstance(c[:], list) else tuple(c[:]))
                                         for c in ch.data_chunks()]
            chans.append(ent)
        out['groups'].append((g.path, [(k, H.norm_prop(v)) for k, v in g.properties.items()], chans))
    return out


def data_read_attempts(tf):
    """On an index-only file: every data read must raise (or return nothing for empty channels)."""
    bad = []
    for g in tf.groups():
        for ch in g.channels():
            attempts = [('slice', lambda: ch[:]), ('read_data', lambda: ch.read_data()), ('unscaled', lambda: ch.read_data(scaled=False)),
                        ('index', lambda: ch[0]), ('chunks', lambda: [c[:] for c in ch.data_chunks()]),
                        ('iter', lambda: list(ch)), ('data', lambda: ch.data)]
            for an, fn in attempts:
                r = H.guarded(fn)
                if r[0] == 'ok':
                    v = r[1]
                    n = sum(len(x) for x in v) if isinstance(v, list) else (len(v) if hasattr(v, '__len__') else 1)
                    if isinstance(v, dict):
                        n = sum(len(x) for x in v.values())
                    # a data read of a channel that holds values has to be refused: completing without an error is not a
                    # refusal, whether it hands back values or an empty result
                    if len(ch) > 0:
                        bad.append((ch.path, an, n))
    r = H.guarded(lambda: [1 for _ in tf.data_chunks()])
    if r[0] == 'ok' and any(len(ch) for g in tf.groups() for ch in g.channels()):
        bad.append(('<file>', 'file-chunks', len(r[1])))
    return bad


def run_file(item):
    name, hist, seed, tier, cuts = item
    data, idx, layout, ref = G.encode(hist, seed=seed, index=True)
    res = {'counters': {'files': 0, 'reads': 0, 'nontrivial': 0, 'index_only': 0, 'truncated': 0}, 'outcomes': {},
           'violations': [], 'samples': []}
    variants = [(None, data)]
    if cuts and layout and layout[-1]['chunks']:
        lo, hi = layout[-1]['data_start'], layout[-1]['end']
        step = 1 if tier == 'thorough' else max(1, (hi - lo) // 6)
        variants += [(c, data[:c]) for c in range(lo + 1, hi, step)]
    tmp = H.scratch('verif_c09_')
    path = os.path.join(tmp, 'f.tdms')
    try:
        for cut, d in variants:
            res['counters']['files'] += 1
            if cut is not None:
                res['counters']['truncated'] += 1
            with open(path, 'wb') as f:
                f.write(d)
            if os.path.exists(path + '_index'):
                os.remove(path + '_index')
            modes = {'read': lambda: summary(H.TdmsFile.read(path)),
                     'open': lambda: _with(H.TdmsFile.open(path), lambda tf: summary(tf, lazy=True)),
                     'read_metadata': lambda: summary(H.TdmsFile.read_metadata(path), data=False)}
            base = {}
            for mn, fn in modes.items():
                base[mn] = H.guarded(fn)
                res['counters']['reads'] += 1
            with open(path + '_index', 'wb') as f:
                f.write(idx)
            for mn, fn in modes.items():
                r = H.guarded(fn)
                res['counters']['reads'] += 1
                if r != base[mn]:
                    res['violations'].append(_viol(name, hist, seed, cut, mn, 'same as without index', _diff(base[mn], r), 'index-changes-result'))
            if any(ref.length(p) for p in ref.order):
                res['counters']['nontrivial'] += 1
            if cut is None and base['read_metadata'][0] == 'ok':
                # index alone: same metadata, no data
                for how in ('path', 'stream'):
                    res['counters']['index_only'] += 1
                    src = (path + '_index') if how == 'path' else io.BytesIO(idx)
                    for api in ('read', 'open', 'read_metadata'):
                        def go():
                            tf = getattr(H.TdmsFile, api)(src if how == 'path' else io.BytesIO(idx))
                            try:
                                return summary(tf, data=False), data_read_attempts(tf)
                            finally:
                                tf.close()
                        r = H.guarded(go)
                        res['counters']['reads'] += 1
                        if r[0] != 'ok':
                            res['violations'].append(_viol(name, hist, seed, cut, 'index-only/%s/%s' % (how, api), 'metadata',
                                                           repr(r), 'index-only-raised'))
                            continue
                        meta, leaks = r[1]
                        if ('ok', meta) != base['read_metadata']:
                            res['violations'].append(_viol(name, hist, seed, cut, 'index-only/%s/%s' % (how, api),
                                                           'same metadata as the data file', _diff(base['read_metadata'], ('ok', meta)),
                                                           'index-only-metadata'))
                        if leaks:
                            res['violations'].append(_viol(name, hist, seed, cut, 'index-only/%s/%s' % (how, api), 'every data read raises',
                                                           'data returned: %r' % (leaks[:3],), 'index-only-returns-data'))
    finally:
        shutil.rmtree(tmp, ignore_errors=True)
    res['outcomes']['transparent' if not res['violations'] else 'differs'] = 1
    res['violations'] = res['violations'][:10]
    if name.startswith('inh') or cuts:
        res['samples'].append({'file': name, 'variants': len(variants), 'history': G.describe(hist)})
    return res


def _with(tf, fn):
    try:
        return fn(tf)
    finally:
        tf.close()


def _diff(a, b):
    sa, sb = repr(a), repr(b)
    i = 0
    while i < min(len(sa), len(sb)) and sa[i] == sb[i]:
        i += 1
    return 'first difference at %d: %s | %s' % (i, sa[max(0, i - 40):i + 80], sb[max(0, i - 40):i + 80])


def _viol(name, hist, seed, cut, mode, exp, got, kind):
    return {'case': {'file': name, 'history': hist, 'seed': seed, 'cut': cut, 'mode': mode}, 'expected': exp, 'observed': got,
            'signature': {'kind': kind, 'mode': mode.split('/')[0], 'family': name.split('/')[0], 'truncated': cut is not None}}


def writer_files(item):
    """Files and index files both produced by the real TdmsWriter."""
    from .. import writerprog as W
    ai, seed = item
    res = {'counters': {'files': 0, 'reads': 0, 'nontrivial': 0}, 'outcomes': {}, 'violations': [], 'samples': []}
    shapes = W.call_shapes()
    assign = W.assignments()[ai]
    tmp = H.scratch('verif_c09w_')
    path = os.path.join(tmp, 'w.tdms')
    try:
        for seq, dest in [(q, d) for q in ([17], [17, 7], [10, 4, 12], [2, 8, 11, 4]) for d in ('stream', 'path')]:
            calls = [shapes[i] for i in seq]
            try:
                # two writer sessions (append mode) whenever there is more than one call
                r = W.run_program(calls, assign, 1 if len(seq) > 1 else 0, 4713, dest, index=True)
            except W.Skip:
                continue
            if r[0] != 'written':
                continue
            res['counters']['files'] += 1
            res['counters']['nontrivial'] += 1
            with open(path, 'wb') as f:
                f.write(r[1])
            if os.path.exists(path + '_index'):
                os.remove(path + '_index')
            modes = {'read': lambda: summary(H.TdmsFile.read(path)),
                     'open': lambda: _with(H.TdmsFile.open(path), lambda tf: summary(tf, lazy=True)),
                     'read_metadata': lambda: summary(H.TdmsFile.read_metadata(path), data=False)}
            base = {mn: H.guarded(fn) for mn, fn in modes.items()}
            with open(path + '_index', 'wb') as f:
                f.write(r[2])
            for mn, fn in modes.items():
                rr = H.guarded(fn)
                res['counters']['reads'] += 2
                if rr != base[mn]:
                    res['violations'].append({'case': {'writer_seq': seq, 'assign': list(assign), 'mode': mn},
                                              'expected': 'same as without index', 'observed': _diff(base[mn], rr),
                                              'signature': {'kind': 'writer-index-changes-result', 'mode': mn}})
    finally:
        shutil.rmtree(tmp, ignore_errors=True)
    return res


def replaced_in_place(item):
    """A recording and its index are read, then both files are replaced in place by another recording of exactly the same sizes
    and given the same modification times (a restore from backup, an rsync --times, a fast re-run on a coarse-grained file
    system), and read again in the same process: each read must equal the read of the same bytes without an index."""
    seed = item
    res = {'counters': {'files': 0, 'reads': 0, 'nontrivial': 0}, 'outcomes': {}, 'violations': [], 'samples': []}
    pairs = [('Int32', 'SingleFloat'), ('Int64', 'DoubleFloat'), ('Uint16', 'Int16')]
    for ta, tb in pairs:
        files = []
        for t, pv in ((ta, '01000000'), (tb, '02000000')):
            h = [G.seg([('/', ['NODATA'], [['run', 'Int32', pv]]), (F.A, ['FULL', t, 3]), (F.B, ['FULL', 'Int8', 2])], chunks=2),
                 G.seg([], meta=False, chunks=1)]
            files.append(G.encode(h, seed=seed, index=True)[:2])
        if len(files[0][0]) != len(files[1][0]) or len(files[0][1]) != len(files[1][1]):
            continue
        tmp = H.scratch('verif_c09r_')
        path = os.path.join(tmp, 'rec.tdms')
        try:
            for k, (d, ix) in enumerate(files + files[:1]):
                with open(path, 'wb') as f:
                    f.write(d)
                with open(path + '_index', 'wb') as f:
                    f.write(ix)
                for p_ in (path, path + '_index'):
                    os.utime(p_, (1700000000, 1700000000))
                res['counters']['files'] += 1
                res['counters']['nontrivial'] += 1
                for mn, fn in (('read', lambda s_: summary(H.TdmsFile.read(s_))),
                               ('open', lambda s_: _with(H.TdmsFile.open(s_), lambda tf: summary(tf, lazy=True))),
                               ('read_metadata', lambda s_: summary(H.TdmsFile.read_metadata(s_), data=False))):
                    plain = H.guarded(fn, io.BytesIO(d))
                    there = H.guarded(fn, path)
                    res['counters']['reads'] += 2
                    if plain != there:
                        res['violations'].append({'case': {'replaced': [ta, tb], 'step': k, 'mode': mn, 'seed': seed},
                                                  'expected': 'same as the same bytes without index', 'observed': _diff(plain, there),
                                                  'signature': {'kind': 'replaced-in-place', 'mode': mn}})
        finally:
            shutil.rmtree(tmp, ignore_errors=True)
    return res


def writer_inplace(item):
    """Two files written by path with index_file=True into one directory, under names that share a stem or lack the .tdms
    extension; each is then read where it lies (the reader looks for <path>_index) and must read as its own bytes read without
    any index; the index must lie at <path>_index."""
    from nptdms import TdmsWriter
    from .. import writerprog as W
    ai, seed = item
    res = {'counters': {'files': 0, 'reads': 0, 'nontrivial': 0}, 'outcomes': {}, 'violations': [], 'samples': []}
    shapes = W.call_shapes()
    assign = W.assignments()[ai]

    def write(path, seq):
        counters, instances = {}, {}
        with TdmsWriter(path, index_file=True) as w:
            for i in seq:
                objs, _m = W.build_objects(shapes[i], assign, counters, instances)
                w.write_segment(objs)
    # a writer closed before its first segment leaves an empty file and an empty index: whatever reading the empty file does,
    # the empty index beside it must not change it
    tmp = H.scratch('verif_c09e_')
    try:
        path = os.path.join(tmp, 'empty.tdms')
        with TdmsWriter(path, index_file=True):
            pass
        modes = {'read': lambda: summary(H.TdmsFile.read(path)),
                 'open': lambda: _with(H.TdmsFile.open(path), lambda tf: summary(tf, lazy=True)),
                 'read_metadata': lambda: summary(H.TdmsFile.read_metadata(path), data=False)}
        with_index = {mn: H.guarded(fn) for mn, fn in modes.items()}
        had_index = os.path.exists(path + '_index')
        if had_index:
            os.remove(path + '_index')
        without = {mn: H.guarded(fn) for mn, fn in modes.items()}
        res['counters']['files'] += 1
        res['counters']['reads'] += 6
        for mn in modes:
            if had_index and with_index[mn][:2] != without[mn][:2]:
                res['violations'].append({'case': {'inplace': ['empty.tdms', ''], 'which': mn, 'assign': list(assign), 'ai': ai},
                                          'expected': 'same as without index', 'observed': 'empty file pair: %r with the empty index, %r without' % (with_index[mn][:2], without[mn][:2]),
                                          'signature': {'kind': 'empty-pair', 'names': ['empty.tdms']}})
    finally:
        shutil.rmtree(tmp, ignore_errors=True)
    for first, second in (('run.tdms', 'run.dat'), ('run', 'run.tdms'), ('a.b.tdms', 'a.b'), ('d.tdms', 'd.tdms.bak'), ('e.TDMS', 'e.tdms')):
        tmp = H.scratch('verif_c09p_')
        try:
            ok = True
            for name, seq in ((first, [17, 7]), (second, [10, 4])):
                try:
                    r = H.guarded(write, os.path.join(tmp, name), seq)
                except W.Skip:
                    ok = False
                    break
                if r[0] != 'ok':
                    ok = False
                    break
            if not ok:
                continue
            for name in (first, second):
                path = os.path.join(tmp, name)
                res['counters']['files'] += 1
                res['counters']['nontrivial'] += 1
                res['counters']['reads'] += 2
                bad = None
                if not os.path.exists(path + '_index'):
                    bad = 'no index file at <path>_index for %s (directory holds %s)' % (name, sorted(os.listdir(tmp)))
                else:
                    with open(path, 'rb') as f:
                        data = f.read()
                    plain = H.guarded(lambda: summary(H.TdmsFile.read(io.BytesIO(data))))
                    there = H.guarded(lambda: summary(H.TdmsFile.read(path)))
                    if plain != there:
                        bad = 'reading %s where it lies differs from reading its bytes without an index: %s' % (name, _diff(plain, there))
                if bad:
                    res['violations'].append({'case': {'inplace': [first, second], 'which': name, 'assign': list(assign), 'ai': ai},
                                              'expected': 'index at <path>_index, transparent', 'observed': bad,
                                              'signature': {'kind': 'writer-index-location', 'names': [first, second]}})
        finally:
            shutil.rmtree(tmp, ignore_errors=True)
    return res


def run(ctx):
    from ..run import merge
    fl = F.f3_files(ctx.tier)
    items = [(n, h, ctx.seed, ctx.tier, False) for n, h in fl]
    if ctx.tier == 'thorough':
        # the truncation family as well: every file complete, and cut inside its last segment at a few offsets
        f6 = F.f6_files('thorough')
        items += [('f6/' + n, h, ctx.seed, 'quick', True) for n, h in f6]
    # incomplete last segment: data file cut inside the last segment while the index is complete
    trunc = [x for x in fl if x[0].startswith(('sq/Int16,TimeStamp', 'sq/Int16,Int16', 'inh/2/app/SAME', 'daqmx', 'special/many', 'special/ts-be',
                                               'sq/TimeStamp,Int16', 'sq/String,Int16', 'sq/Int16,String'))]
    items += [(n, h, ctx.seed, ctx.tier, True) for n, h in trunc]
    m = merge(ctx.map(run_file, items))
    from .. import writerprog as W
    mw = merge(ctx.map(writer_files, [(ai, ctx.seed) for ai in range(len(W.assignments()))]) +
               ctx.map(writer_inplace, [(ai, ctx.seed) for ai in range(0, len(W.assignments()), 5)]) +
               ctx.map(replaced_in_place, [ctx.seed]))
    c = m['counters']
    vac = []
    if not c.get('index_only'):
        vac.append('no index-only read')
    if not c.get('truncated'):
        vac.append('no truncated-data variant')
    if not mw['counters'].get('files'):
        vac.append('no writer-produced file')
    cov = {'evaluations': c['reads'] + mw['counters']['reads'], 'files': c['files'] + mw['counters']['files'],
           'index_only_opens': c['index_only'], 'truncated_data_files': c['truncated'], 'writer_made_files': mw['counters']['files'],
           'distinct_nontrivial': c['nontrivial'] + mw['counters']['nontrivial'],
           'rule': 'evaluations = whole-file reads compared; distinct_nontrivial = distinct (file, cut) variants holding data',
           'outcomes': m['outcomes'], 'samples': m['samples'][:4], 'exhaustive': True, 'vacuity_failures': vac}
    return cov, m['violations'] + mw['violations']


def replay(case):
    if 'replaced' in case:
        r = replaced_in_place(case.get('seed', 0))
        hits = [v for v in r['violations'] if v['case']['replaced'] == case['replaced'] and v['case']['mode'] == case['mode']]
        return bool(hits), 'same as the same bytes without index', hits[0]['observed'] if hits else 'same'
    if 'inplace' in case:
        r = writer_inplace((case['ai'], 0))
        hits = [v for v in r['violations'] if v['case']['inplace'][0] == case['inplace'][0] and v['case']['which'] == case['which']]
        return bool(hits), 'index at <path>_index, transparent', hits[0]['observed'] if hits else 'transparent'
    if 'writer_seq' in case:
        from .. import writerprog as W
        ai = [list(a) for a in W.assignments()].index(case['assign'])
        r = writer_files((ai, 0))
        return bool(r['violations']), 'same as without index', r['violations'][0]['observed'] if r['violations'] else 'same'
    r = run_file((case['file'], case['history'], case.get('seed', 0), 'thorough', case.get('cut') is not None))
    for v in r['violations']:
        if v['case']['mode'] == case['mode'] and v['case']['cut'] == case.get('cut'):
            return True, v['expected'], v['observed']
    if r['violations']:
        return True, r['violations'][0]['expected'], r['violations'][0]['observed']
    return False, 'transparent', 'transparent'
