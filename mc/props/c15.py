"""C15 - Byte order of a segment does not change its meaning.   (exploration)

For every logical history of reduced C01 / C02 / C11 families every assignment of a byte order to each segment
(all 2^n, n <= 3) is encoded by the independent encoder and read by the real code; the result must equal the
all-little-endian encoding's result and the reference interpretation, bit-exact in native order.
"""
import itertools

from .. import tdmsgen as G
from .. import harness as H
from .. import families as F

ID = 'C15'
LEVEL = 'exploration'
TECHNIQUE = 'bounded-exhaustive enumeration: all per-segment byte-order assignments x finite families of logical contents, real reader, differential (all-LE) + reference oracle'
LEVEL_TEXT = ('All 17 data types (pairs, both layouts, multi-chunk), every property type, inherited / metadata-less segments, DAQmx '
              'format-changing scalers of every type and digital lines: each logical history is encoded under every per-segment '
              'byte-order assignment and read eagerly, lazily and eagerly with memmap_dir, with raw_timestamps on and off.')
LEVEL_NOTE = 'Trusted: big-endian encoding rules in mc/tdmsgen.py (ToC always little-endian; timestamps swap field order; strings keep bytes, offsets swap). big_endian.tdms from the repository test data is decoded by selftest.'
ASSUMPTIONS = ['the addressed bit of a multi-byte digital-line word is bit (offset mod 8) of its value in the byte order of the segment']

A, B, C = F.A, F.B, F.C


def full(t, n):
    return ['FULL', 'String', n, 2 * n + 1] if t == 'String' else ['FULL', t, n]


def histories(tier):
    out = []
    props = [['p_' + t, t, (G.POOLS[t][i % len(G.POOLS[t])] if t != 'String' else 'é日'.encode()).hex()]
             for i, t in enumerate(G.PROP_TYPES)]
    for ta in G.T17:
        for tb in G.T17:
            out.append(('pair', [G.seg([(A, full(ta, 2)), (B, full(tb, 3))], chunks=2)]))
            if tier == 'thorough' or tb in ('Int16', 'TimeStamp', 'String', 'ComplexSingleFloat'):
                # two segments, the second one restating only A ("same as before") - 4 byte-order assignments
                out.append(('pair-2seg', [G.seg([(A, full(ta, 2)), (B, full(tb, 1))], chunks=1),
                                          G.seg([(A, ['SAME'])], newlist=False, chunks=2)]))
            if ta != 'String' and tb != 'String':
                out.append(('pair-il', [G.seg([(A, full(ta, 2)), (B, full(tb, 2))], chunks=2, interleaved=True)]))
        # three segments: full, inherited, metadata-less
        for il in (False, True):
            if il and ta == 'String':
                continue
            out.append(('inherit', [G.seg([('/', ['NODATA'], props), (A, full(ta, 2)), (B, full('Int16', 2))], chunks=1, interleaved=il),
                                    G.seg([(A, ['SAME']), (B, ['SAME'] if il else ['NODATA'], props[:3])], newlist=False, chunks=2, interleaved=il),
                                    G.seg([], meta=False, chunks=1, interleaved=il)]))
    out.append(('props', [G.seg([('/', ['NODATA'], props), ("/'g'", ['NODATA'], props), (A, full('Int8', 1), props)]),
                          G.seg([('/', ['NODATA'], props[::-1])])]))
    tsprops = [['t%d' % i, 'TimeStamp', v.hex()] for i, v in enumerate(G.POOLS['TimeStamp'])]   # includes pre-1904 (negative seconds)
    out.append(('props', [G.seg([('/', ['NODATA'], tsprops), (A, full('TimeStamp', 2), tsprops)]),
                          G.seg([(A, ['SAME'], tsprops[::-1])], newlist=False)]))
    # mirror pairs: each value next to the value whose little-endian bytes are its big-endian bytes (1 and 16777216 as Int32):
    # the same byte string then means different values in segments of different byte order, in one file and in one process
    mirror = []
    for t in G.PROP_TYPES:
        if t in ('String', 'Boolean', 'TimeStamp') or G.TYPES[t][1] == 1:   # (a mirrored timestamp is outside datetime64[us])
            continue
        for i, v in enumerate(G.POOLS[t][:4] + ([(1).to_bytes(G.TYPES[t][1], 'little')] if (G.TYPES[t][2] or '-') in 'hiqHIQ' else [])):
            if v != v[::-1]:
                mirror += [['m%d_%s' % (i, t), t, v.hex()], ['w%d_%s' % (i, t), t, v[::-1].hex()]]
    out.append(('props-mirror', [G.seg([('/', ['NODATA'], mirror), (A, full('Int32', 1), mirror[:8])]),
                                 G.seg([('/', ['NODATA'], mirror[::-1]), (A, ['SAME'], mirror[8:16])], newlist=False)]))
    for code in G.DAQMX_TYPES:
        size = G.DAQMX_TYPES[code][0]
        sc = [(code, 0, 1, 0, 0), (3, 0, size + 1, 0, 1)]
        out.append(('daqmx', [G.seg([(A, F.daqmx_enc(2, sc, [size + 4]))], chunks=2), G.seg([], meta=False, chunks=1),
                              G.seg([(A, ['SAME'])], newlist=False)]))
    for code, tname in ((3, 'Int16'), (7, 'Int64'), (9, 'DoubleFloat')):
        size = G.DAQMX_TYPES[code][0]
        # a DAQmx raw data index on a channel with an explicit (non raw) data type
        out.append(('daqmx', [G.seg([(A, F.daqmx_enc(2, [(code, 0, 1, 0, 0)], [size + 2], 'fc', tname)),
                                     (B, F.daqmx_enc(2, [(3, 0, 0, 0, 0)], [size + 2]), [F._uprop('NI_Number_Of_Scales', 1)])], chunks=2),
                              G.seg([], meta=False, chunks=1)]))
    if tier == 'thorough':
        for n_, h_ in F.f6_files('thorough'):
            if n_.endswith('/LE'):
                out.append(('daqmx-f6' if n_.startswith('daqmx') else 'f6', h_))
    out.append(('daqmx-dl', [G.seg([(A, F.daqmx_enc(3, [(0, 0, 5, 0, 0)], [2], 'dl')), (B, F.daqmx_enc(3, [(0, 0, 9, 0, 0)], [2], 'dl'))], chunks=2),
                             G.seg([], meta=False)]))
    # digital lines read through 16- and 32-bit words: the addressed bit is bit (offset mod 8) of the word's VALUE, which sits in
    # another byte of the buffer when the segment is big-endian
    for code in (2, 4):
        size = G.DAQMX_TYPES[code][0]
        for bit in (0, 3, 7, 8 + 2):
            out.append(('daqmx-dl', [G.seg([(A, F.daqmx_enc(3, [(code, 0, bit, 0, 0)], [size + 1], 'dl')),
                                            (B, F.daqmx_enc(3, [(0, 0, 8 * size + 1, 0, 0)], [size + 1], 'dl'))], chunks=2),
                                     G.seg([], meta=False)]))
    return out


def with_order(hist, bits):
    out = []
    for s, b in zip(hist, bits):
        s2 = dict(s)
        s2['big'] = bool(b)
        out.append(s2)
    return out


def _chunks_vs_read(data):
    import io
    tf = H.TdmsFile.open(io.BytesIO(data))
    try:
        for g in tf.groups():
            for ch in g.channels():
                if not any(k.startswith('NI_Number_Of_Scales') for k in ch.properties) and ch.scaler_data_types and \
                        ch.data_type.__name__ == 'DaqMxRawData':
                    continue   # no scaling information: chunk[:] is documented to raise
                r = H.guarded(lambda: b''.join(H.norm_array(c[:])[2] for c in ch.data_chunks()))
                full = H.guarded(lambda: H.norm_array(ch[:])[2])
                if r[0] != 'ok' or full[0] != 'ok' or r[1] != full[1]:
                    return 'chunk stream of %s differs from channel[:]: %r vs %r' % (ch.path, r[1][:16] if r[0] == 'ok' else r, full[1][:16] if full[0] == 'ok' else full)
    finally:
        tf.close()
    return None


def run_hist(item):
    fam, hist, seed = item
    res = {'counters': {'histories': 1, 'encodings': 0, 'reads': 0, 'nontrivial': 0, 'memmap_reads': 0}, 'outcomes': {}, 'violations': [], 'samples': []}
    n = len(hist)
    base = {}
    ref0 = None
    mm = None
    for bits in itertools.product((0, 1), repeat=n):
        h = with_order(hist, bits)
        data, _i, _l, ref = G.encode(h, seed=seed, ref=G.interpret(h, seed=seed, lenient=True, filler_phase=seed))
        res['counters']['encodings'] += 1
        if any(bits):
            res['counters']['nontrivial'] += 1
        for lazy in (False, True, 'memmap'):
            for raw_ts in (True, False):
                if lazy == 'memmap':
                    # eager read into memory-mapped receivers: the receiver's dtype is chosen before the bytes arrive
                    if mm is None:
                        mm = H.scratch('c15mm')
                    o = H.observe(data, lazy=False, raw_timestamps=raw_ts, memmap_dir=mm)
                    res['counters']['memmap_reads'] += 1
                else:
                    o = H.observe(data, lazy=lazy, raw_timestamps=raw_ts)
                res['counters']['reads'] += 1
                key = (lazy, raw_ts)
                bad = None
                if o[0] != 'ok':
                    bad = ('raised', 'raised %s: %s' % (o[1], o[2]))
                elif not any(bits):
                    base[key] = o[1]
                    if raw_ts:
                        ref0 = ref
                        why = H.compare_with_ref(o[1], ref)
                        if why:
                            bad = ('le-differs-from-reference', why)
                else:
                    if fam.startswith('daqmx') and lazy is True and raw_ts:
                        # chunk streams hand out the segment arrays themselves: they must agree with the windowed read
                        cw = _chunks_vs_read(data)
                        if cw:
                            bad = ('chunks-differ', cw)
                    if bad is None and fam.startswith('daqmx'):
                        # DAQmx values are the buffer bytes in the segment's order: the logical content of a BE segment is
                        # the byte-swapped value, so compare with the reference of this very encoding
                        why = H.compare_with_ref(o[1], ref) if raw_ts else None
                        if why:
                            bad = ('differs-from-reference', why)
                    elif o[1] != base.get(key):
                        why = H.compare_with_ref(o[1], ref) if raw_ts else 'differs from the all-little-endian reading'
                        bad = ('differs-from-le', why or 'differs from the all-little-endian reading')
                if bad and len(res['violations']) < 6:
                    types = sorted(set(o_['enc'][1] for s in hist for o_ in s['objects'] if o_['enc'][0] == 'FULL'))
                    res['violations'].append({'case': {'family': fam, 'history': hist, 'bits': list(bits), 'seed': seed, 'lazy': lazy, 'raw_ts': raw_ts},
                                              'expected': 'same as little-endian encoding', 'observed': bad[1],
                                              'signature': {'kind': bad[0], 'family': fam, 'types': types if fam != 'props' else None,
                                                            'lazy': lazy, 'raw_ts': raw_ts}})
    if mm is not None:
        import shutil
        shutil.rmtree(mm, ignore_errors=True)
    res['outcomes']['same' if not res['violations'] else 'differs'] = 1
    if fam == 'inherit':
        res['samples'].append({'family': fam, 'history': G.describe(hist), 'assignments': 2 ** n})
    return res


def run(ctx):
    from ..run import merge
    hs = histories(ctx.tier)
    m = merge(ctx.map(run_hist, [(f, h, ctx.seed) for f, h in hs], chunksize=2))
    c = m['counters']
    cov = {'evaluations': c['reads'], 'histories': c['histories'], 'encodings': c['encodings'], 'distinct_nontrivial': c['nontrivial'],
           'memmap_reads': c['memmap_reads'],
           'rule': 'distinct (history, byte-order assignment) with at least one big-endian segment; each read eagerly, lazily and '
                   'eagerly into memory-mapped receivers (memmap_dir), with raw_timestamps on and off',
           'outcomes': m['outcomes'], 'samples': m['samples'][:3], 'exhaustive': True,
           'vacuity_failures': [] if c['nontrivial'] else ['no big-endian encoding']}
    return cov, m['violations']


def replay(case):
    r = run_hist((case['family'], case['history'], case.get('seed', 0)))
    for v in r['violations']:
        if v['case']['bits'] == case['bits'] and v['case']['lazy'] == case['lazy'] and v['case']['raw_ts'] == case['raw_ts']:
            return True, v['expected'], v['observed']
    if r['violations']:
        return True, r['violations'][0]['expected'], r['violations'][0]['observed']
    return False, 'same', 'same'
