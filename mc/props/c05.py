"""C05 - Reads from an open file are independent of earlier reads.   (model checking)

One lazily opened TdmsFile is a shared-state object (stream cursor, per-channel chunk cache, per-segment
memos, offset index); partially consumed chunk generators are coroutines and the explorer is their
scheduler.  Every operation sequence up to a depth over the operation alphabet is replayed on a freshly
opened file (full tree, no merging), and a BFS over (stream position, generator progress, cache state)
keys explores deeper.  Oracle: each operation returns what it returns on a fresh file; the k-th next()
returns the k-th element of the uninterrupted sequence; at the end all live generators are drained.
"""
import hashlib
import io

import numpy as np

from .. import tdmsgen as G
from .. import harness as H
from .. import families as F

ID = 'C05'
LEVEL = 'model_checking'
TECHNIQUE = 'explicit-state exploration of all single-threaded interleavings of read operations and generator steps on the real open file (full tree to depth d + BFS with state keys)'
LEVEL_TEXT = ('All sequences of read operations (index, slice, window, creating and stepping up to 2 channel-level and 2 '
              'file-level chunk generators) up to the stated depth are executed on the real TdmsFile.open object, for files '
              'chosen so that hidden state collides; a BFS with canonical keys (cursor, generator progress, cache bounds, offset '
              'index) extends the depth. Each result is compared with the same operation on a fresh file; chunks delivered earlier '
              '(and the arrays they handed out) are re-examined after the history.')
LEVEL_NOTE = ('Trusted: the fresh-file result of each single operation (tied to the reference by C01-C04). Bounds: 12 files (+ long files), '
              '22-label alphabet, depth 3 (quick) / 4-5 (thorough) full tree, BFS depth 6-8.')
ASSUMPTIONS = ['single-threaded use (documented: lazily opened files are not thread safe)',
               'BFS key = public observables refined by private cursor/cache attributes when present; merging is paired '
               'with the no-merging tree']

A, B = F.A, F.B


def _files():
    i32, i16 = 'Int32', 'Int16'
    fs = {}
    fs['contig'] = [G.seg([(A, ['FULL', i32, 2]), (B, ['FULL', i16, 3])], chunks=2),
                    G.seg([(A, ['FULL', i32, 2]), (B, ['FULL', i16, 3])], chunks=1)]
    fs['separate'] = [G.seg([(A, ['FULL', i32, 2])], chunks=2), G.seg([(B, ['FULL', i16, 3])], chunks=1),
                      G.seg([(A, ['FULL', i32, 2])], chunks=1), G.seg([(B, ['FULL', i16, 3])], chunks=2)]
    fs['interleaved'] = [G.seg([(A, ['FULL', i32, 2]), (B, ['FULL', i16, 2])], chunks=2, interleaved=True),
                         G.seg([(A, ['FULL', i32, 1]), (B, ['FULL', i16, 1])], chunks=2, interleaved=True)]
    w = [8]
    da = F.daqmx_enc(2, [(5, 0, 2, 0, 0), (2, 0, 6, 0, 1)], w)
    db = F.daqmx_enc(2, [(3, 0, 0, 0, 0)], w)
    fs['daqmx'] = [G.seg([(A, da, F.DAQMX_SCALE_PROPS), (B, db, [F._uprop('NI_Number_Of_Scales', 1)])], chunks=2),
                   G.seg([(A, ['SAME']), (B, ['SAME'])], newlist=False, chunks=1)]
    # the second segment restates both DAQmx indexes with the scalers at other byte offsets of the row (same paths, other layout)
    da2 = F.daqmx_enc(2, [(5, 0, 4, 0, 0), (2, 0, 0, 0, 1)], w)
    db2 = F.daqmx_enc(2, [(3, 0, 2, 0, 0)], w)
    fs['daqmx-relayout'] = [G.seg([(A, da, F.DAQMX_SCALE_PROPS), (B, db, [F._uprop('NI_Number_Of_Scales', 1)])], chunks=2),
                            G.seg([(A, da2), (B, db2)], chunks=2), G.seg([], meta=False, chunks=1)]
    fs['strings'] = [G.seg([(A, ['FULL', 'String', 2, 5]), (B, ['FULL', i32, 3])], chunks=2),
                     G.seg([(A, ['FULL', 'String', 2, 3]), (B, ['FULL', i32, 3])], chunks=1)]
    fs['nometa'] = [G.seg([(B, ['FULL', i16, 3]), (A, ['FULL', i32, 2])], chunks=1),
                    G.seg([], meta=False, chunks=2), G.seg([], meta=False, chunks=1)]
    fs['contig3'] = [G.seg([(B, ['FULL', i16, 3]), (A, ['FULL', i32, 2])], chunks=1),
                     G.seg([(B, ['FULL', i16, 3]), (A, ['FULL', i32, 2])], chunks=3)]
    fs['be-ts'] = [G.seg([(A, ['FULL', 'TimeStamp', 2]), (B, ['FULL', i32, 3])], chunks=2, big=True),
                   G.seg([(A, ['FULL', 'TimeStamp', 2]), (B, ['FULL', i32, 3])], chunks=1, big=False)]
    # chunk starts that are not multiples of the chunk length (3, then 2+2), so "same chunk" cannot be decided by division
    fs['unaligned'] = [G.seg([(A, ['FULL', i32, 3]), (B, ['FULL', i16, 2])], chunks=1),
                       G.seg([(A, ['FULL', i32, 2]), (B, ['FULL', i16, 3])], chunks=2)]
    # scalings whose evaluation has internal structure: NIST thermocouple sub-ranges differ from chunk to chunk (equal chunk
    # lengths), in both directions; and a chain Linear -> RTD / Add(Linear, RTD) over a chunk holding a NaN, for which the RTD
    # solver raises - reads after the failed one must not be affected by it
    nan = float('nan')
    f64 = 'DoubleFloat'
    ta = [F._uprop('NI_Number_Of_Scales', 1)] + F.thermocouple_props(0, 10073, 0)
    tb = [F._uprop('NI_Number_Of_Scales', 1)] + F.thermocouple_props(0, 10073, 1)
    fs['thermo'] = [G.seg([(A, ['FULL', f64, 2, F.f64hex([-3000.0, -1000.0, 5000.0, 10000.0, 30000.0, 40000.0])], ta),
                           (B, ['FULL', f64, 2, F.f64hex([-100.0, -50.0, 100.0, 500.0])], tb)], chunks=3),
                    G.seg([(A, ['FULL', f64, 2, F.f64hex([21000.0, -5000.0])]), (B, ['FULL', f64, 2, F.f64hex([1000.0, -200.0])])], chunks=1)]
    ra = [F._uprop('NI_Number_Of_Scales', 2)] + F.linear_props(0, 1.0, 0.0) + F.rtd_props(1, 0)
    rb = [F._uprop('NI_Number_Of_Scales', 3)] + F.linear_props(0, 2.0, 1.0) + F.rtd_props(1) + F.add_props(2, 0, 1)
    vals = [0.11, 0.12, nan, 0.13, 0.09, 0.14]
    fs['rtd-nan'] = [G.seg([(A, ['FULL', f64, 2, F.f64hex(vals)], ra), (B, ['FULL', f64, 2, F.f64hex(vals[::-1])], rb)], chunks=3),
                     G.seg([(A, ['FULL', f64, 2, F.f64hex([0.15, 0.08])]), (B, ['FULL', f64, 2, F.f64hex([0.1, 0.2])])], chunks=1)]
    return fs


def _long_file():
    """130 segments; a and b have the same per-segment counts for the first 110 segments and differ afterwards
    (the per-channel offset index is de-duplicated by comparing arrays block-wise)"""
    i32, i16 = 'Int32', 'Int16'
    segs = [G.seg([(A, ['FULL', i32, 2]), (B, ['FULL', i32, 2])], chunks=1)]
    segs += [G.seg([], meta=False, chunks=1) for _ in range(109)]
    segs.append(G.seg([(B, ['FULL', i32, 3])], newlist=False, chunks=1))
    segs += [G.seg([], meta=False, chunks=1) for _ in range(19)]
    return segs


def _long_at(p):
    """130 segments; b has one value more in segment p and one less in segment p+1, so the cumulative offsets of a and b
    differ at exactly one position (p)"""
    i32 = 'Int32'
    segs = []
    nb_prev = None
    for si in range(130):
        nb = 3 if si == p else (1 if si == p + 1 else 2)
        if si == 0:
            segs.append(G.seg([(A, ['FULL', i32, 2]), (B, ['FULL', i32, nb])], chunks=1))
        elif nb != nb_prev:
            segs.append(G.seg([(B, ['FULL', i32, nb])], newlist=False, chunks=1))
        else:
            segs.append(G.seg([], meta=False, chunks=1))
        nb_prev = nb
    return segs


FILES = _files()
DERIVED = ['short-final', 'mismatch-index']
PATH_FILES = ['mismatch-index']
LONG = {'long': _long_file()}
LONG_AT = [0, 1, 50, 98, 99, 100, 101, 127]
for _p in LONG_AT:
    LONG['long@%d' % _p] = _long_at(_p)
_DATA = {}


def file_bytes(name, seed):
    k = (name, seed)
    if k not in _DATA:
        if name == 'short-final':
            # 'less data than expected': the last segment's raw data stops 6 bytes early and its lead-in says so, so the data
            # length is not a multiple of the chunk size although the segment is complete by its own offsets
            import struct
            data, idx, layout, ref = G.encode(FILES['contig3'], seed=seed)
            last = layout[-1]
            nso = struct.unpack('<Q', data[last['start'] + 12:last['start'] + 20])[0]
            data = data[:last['start'] + 12] + struct.pack('<Q', nso - 6) + data[last['start'] + 20:len(data) - 6]
            _DATA[k] = (data, None, layout, ref)
        elif name == 'mismatch-index':
            # a .tdms_index beside the file that matches for the first segment only
            data, _i, layout, ref = G.encode(FILES['separate'], seed=seed)
            other = [dict(s_) for s_ in FILES['separate']]
            other[1] = G.seg([(B, ['FULL', 'Int16', 3], [['extra', 'String', '78787878']])], chunks=1)
            idx = G.encode(other, seed=seed, index=True)[1]
            _DATA[k] = (data, idx, layout, ref)
        else:
            _DATA[k] = G.encode(FILES[name] if name in FILES else LONG[name], seed=seed)
    return _DATA[k]


_PATHS = {}


def on_disk(name, seed):
    """data + index written once per worker process into a private temp directory (removed at exit)"""
    import atexit
    import os
    import shutil
    import tempfile
    k = (name, seed)
    if k not in _PATHS:
        d = H.scratch('verif_c05_')
        atexit.register(shutil.rmtree, d, True)
        fb = file_bytes(name, seed)
        with open(os.path.join(d, 'f.tdms'), 'wb') as f:
            f.write(fb[0])
        with open(os.path.join(d, 'f.tdms_index'), 'wb') as f:
            f.write(fb[1])
        _PATHS[k] = os.path.join(d, 'f.tdms')
    return _PATHS[k]


_CURRENT_P = [0]


def alphabet(la, lb):
    if la > 100 and lb == la:   # long@p files: b's segment shapes differ from a's at one position only
        p = _CURRENT_P[0]
        return [['idx', 'a', 5], ['read', 'a', 2 * p, 3], ['idx', 'b', 2 * p + 1], ['idx', 'b', 2 * p + 2], ['read', 'b', max(0, 2 * p - 1), 5],
                ['idx', 'b', lb - 1], ['idx', 'b', 2 * p + 4]]
    if la > 100:   # the long file: a short alphabet aimed at the tail, where the two channels' segment shapes differ
        return [['idx', 'a', 5], ['read', 'a', la - 4, 3], ['idx', 'b', lb - 1], ['idx', 'b', lb - 40], ['read', 'b', lb - 30, 10],
                ['slice', 'b', lb - 12, lb, 3], ['idx', 'b', 3], ['newgen', 'a'], ['next', 'g', 0]]
    ops = [['idx', 'a', 0], ['idx', 'a', 1], ['idx', 'a', min(la - 1, 2 + la // 2)], ['idx', 'a', la - 1],
           ['idx', 'a', -1], ['idx', 'a', -3], ['idx', 'b', 0], ['idx', 'b', lb - 1], ['idx', 'b', -2],
           ['slice', 'a', 1, min(5, la), None], ['slice', 'b', 2, min(7, lb), 2], ['slice', 'a', 0, 2, None],
           ['read', 'a', min(3, la - 1), 2], ['read', 'b', 0, None], ['idx', 'a', la + 5],   # the last one raises IndexError

           ['newgen', 'a'], ['newgen', 'b'], ['newfilegen'],
           ['next', 'g', 0], ['next', 'g', 1], ['next', 'f', 0], ['next', 'f', 1]]
    out = []
    for o in ops:
        if o not in out:
            out.append(o)
    return out


def norm_chunk(ch):
    return ('chunk', ch.offset, H.norm_array(ch[:]))


def norm_file_chunk(dc):
    out = []
    for g in dc.groups():
        for c in g.channels():
            out.append((g.name, c.name, c.offset, len(c), H.norm_array(c[:])))
    return ('filechunk', tuple(out))


class Session(object):
    def __init__(self, data, path=None):
        if path is not None:
            self.stream = None
            self.tf = H.TdmsFile.open(path)
        else:
            self.stream = io.BytesIO(data)
            self.tf = H.TdmsFile.open(self.stream)
        self.ch = {'a': self.tf['g']['a'], 'b': self.tf['g']['b']}
        self.gens = {'g': [], 'f': []}   # [generator, progress, exhausted, which]
        self.kept = []                   # (kind, chunk object, array handed out, normal form at delivery)

    def enabled(self, op):
        if op[0] == 'newgen':
            return len(self.gens['g']) < 2
        if op[0] == 'newfilegen':
            return len(self.gens['f']) < 2
        if op[0] == 'next':
            gl = self.gens[op[1]]
            return op[2] < len(gl) and not gl[op[2]][2]
        return True

    def do(self, op):
        """-> normalised outcome"""
        k = op[0]
        if k == 'idx':
            r = H.guarded(self.ch[op[1]].__getitem__, op[2])
            return ('ok', H.norm_scalar(r[1])) if r[0] == 'ok' else r
        if k == 'slice':
            r = H.guarded(self.ch[op[1]].__getitem__, slice(op[2], op[3], op[4]))
            return ('ok', self._take(r[1])) if r[0] == 'ok' else r
        if k == 'read':
            r = H.guarded(self.ch[op[1]].read_data, op[2], op[3])
            return ('ok', self._take(r[1])) if r[0] == 'ok' else r
        if k == 'newgen':
            self.gens['g'].append([self.ch[op[1]].data_chunks(), 0, False, op[1]])
            return ('ok', 'gen')
        if k == 'newfilegen':
            self.gens['f'].append([self.tf.data_chunks(), 0, False, 'file'])
            return ('ok', 'gen')
        if k == 'next':
            g = self.gens[op[1]][op[2]]

            def step():
                try:
                    x = next(g[0])
                except StopIteration:
                    return ('stop',)
                n_ = norm_chunk(x) if op[1] == 'g' else norm_file_chunk(x)
                # the caller keeps what it was given (chunk object, and for channel chunks the array) while reading on
                self.kept.append((op[1], x, x[:] if op[1] == 'g' else None, n_))
                return n_
            r = H.guarded(step)
            if r[0] == 'ok':
                if r[1] == ('stop',):
                    g[2] = True
                else:
                    g[1] += 1
            else:
                g[2] = True
            return r
        raise ValueError(op)

    @staticmethod
    def _take(arr):
        """normal form of a result; afterwards the caller post-processes its own array in place (a result belongs to the caller)"""
        n_ = H.norm_array(arr)
        try:
            if isinstance(arr, np.ndarray) and arr.dtype.kind in 'iuf' and arr.flags.writeable and arr.size:
                arr *= 0
                arr += 77
        except Exception:  # noqa
            pass
        return n_

    def key(self):
        """Canonical state: public observables + private refinements when present."""
        priv = []
        try:
            for n in ('a', 'b'):
                c = self.ch[n]
                priv.append(getattr(c, '_cached_chunk_bounds', None))
            priv.append(tuple(sorted(getattr(self.tf._reader, '_segment_channel_offsets', {}).keys())))
            priv.append(tuple((s.chunk_size_cached is not None, s.data_objects_cached is not None)
                              for s in self.tf._reader._segments))
        except Exception:
            priv = None
        return (self.stream.tell() if self.stream is not None else -1, tuple((g[3], g[1], g[2]) for g in self.gens['g']),
                tuple((g[1], g[2]) for g in self.gens['f']), tuple(priv) if priv is not None else None)

    def close(self):
        self.tf.close()


_EXPECT = {}


def expectations(name, seed):
    """Fresh-file result of every single operation and the uninterrupted generator sequences."""
    k = (name, seed)
    if k in _EXPECT:
        return _EXPECT[k]
    data = file_bytes(name, seed)[0]
    path = on_disk(name, seed) if name in PATH_FILES else None
    s = Session(data, path)
    la, lb = len(s.ch['a']), len(s.ch['b'])
    s.close()
    if '@' in name:
        _CURRENT_P[0] = int(name.split('@')[1])
    alpha = alphabet(la, lb)
    single = {}
    for op in alpha:
        if op[0] in ('idx', 'slice', 'read'):
            s = Session(data, path)
            single[repr(op)] = s.do(op)
            s.close()
    seqs = {}
    for which in ('a', 'b'):
        s = Session(data, path)
        s.do(['newgen', which])
        out = []
        while True:
            r = s.do(['next', 'g', 0])
            out.append(r)
            if r[0] != 'ok' or r[1] == ('stop',):
                break
        seqs[which] = out
        s.close()
    s = Session(data, path)
    s.do(['newfilegen'])
    out = []
    while True:
        r = s.do(['next', 'f', 0])
        out.append(r)
        if r[0] != 'ok' or r[1] == ('stop',):
            break
    seqs['file'] = out
    s.close()
    _EXPECT[k] = (alpha, single, seqs)
    return _EXPECT[k]


def run_history(name, seed, ops, want_key=False):
    """Replay `ops` on a fresh file; -> (violation tuple | None, key, n_enabled_ops_executed)"""
    alpha, single, seqs = expectations(name, seed)
    data = file_bytes(name, seed)[0]
    s = Session(data, on_disk(name, seed) if name in PATH_FILES else None)
    try:
        for i, op in enumerate(ops):
            if not s.enabled(op):
                return ('disabled', i), None, i
            if op[0] == 'next':
                g = s.gens[op[1]][op[2]]
                exp = seqs[g[3]][g[1]]
            elif op[0] in ('newgen', 'newfilegen'):
                exp = ('ok', 'gen')
            else:
                exp = single[repr(op)]
            got = s.do(op)
            if got != exp:
                return ('step', i, exp, got), None, i
        key = s.key() if want_key else None
        # drain every live generator: must deliver the remainder of the full sequence
        for kind in ('g', 'f'):
            for gi, g in enumerate(s.gens[kind]):
                while not g[2]:
                    exp = seqs[g[3]][g[1]]
                    got = s.do(['next', kind, gi])
                    if got != exp:
                        return ('drain', len(ops), exp, got, kind, gi), key, len(ops)
        # chunks delivered earlier (and the arrays they handed out) must still be what they were when they were delivered
        for kind, obj, arr, n0 in s.kept:
            again = H.guarded(lambda: norm_chunk(obj) if kind == 'g' else norm_file_chunk(obj))
            if again != ('ok', n0):
                return ('kept', len(ops), n0, again, kind, 0), key, len(ops)
            if arr is not None and H.norm_array(arr) != n0[2]:
                return ('kept', len(ops), n0, ('array handed out earlier now reads', H.norm_array(arr)), kind, 0), key, len(ops)
        return None, key, len(ops)
    finally:
        s.close()


def opkind(op):
    return op[0] + ('-' + op[1] if op[0] == 'next' else '')


def mkviolation(name, seed, ops, v):
    short = lambda x: repr(x)[:300]
    if v[0] == 'step':
        where = 'operation %d %r' % (v[1], ops[v[1]])
    elif v[0] == 'kept':
        where = 'a chunk delivered earlier, looked at again after the history'
    else:
        where = 'draining generator %s%d after the history' % (v[4], v[5])
    return {'case': {'file': name, 'seed': seed, 'ops': ops}, 'expected': '%s: %s' % (where, short(v[2])),
            'observed': short(v[3]),
            'signature': {'kind': v[0], 'file': name, 'op_kinds': sorted(set(opkind(o) for o in ops))}}


def _tree_worker(item):
    name, seed, prefix, depth = item
    alpha = expectations(name, seed)[0]
    res = {'counters': {'histories': 0, 'nontrivial': 0, 'gen_interleaved': 0}, 'outcomes': {}, 'violations': [], 'samples': []}

    def rec(ops):
        v, _k, _n = run_history(name, seed, ops)
        if v is not None and v[0] == 'disabled':
            return
        res['counters']['histories'] += 1
        kinds = set(o[0] for o in ops)
        if len(ops) >= 2 and len(kinds) >= 2:
            res['counters']['nontrivial'] += 1
        if 'next' in kinds and kinds & {'idx', 'slice', 'read'}:
            res['counters']['gen_interleaved'] += 1
        oc = 'equal' if v is None else 'deviates'
        res['outcomes'][oc] = res['outcomes'].get(oc, 0) + 1
        if v is not None:
            if len(res['violations']) < 20:
                res['violations'].append(mkviolation(name, seed, ops, v))
            return  # extensions of a failing history add nothing
        if len(ops) == depth and not res['samples'] and 'next' in kinds and len(kinds) >= 3:
            res['samples'].append({'file': name, 'ops': ops})
        if len(ops) < depth:
            for op in alpha:
                rec(ops + [op])
    rec(list(prefix))
    return res


def _bfs_worker(item):
    name, seed, ops = item
    alpha = expectations(name, seed)[0]
    out = []
    for oi, op in enumerate(alpha):
        v, key, _n = run_history(name, seed, ops + [op], want_key=True)
        if v is not None and v[0] == 'disabled':
            continue
        out.append((oi, None if v is not None else hashlib.md5(repr(key).encode()).hexdigest(),
                    None if v is None else mkviolation(name, seed, ops + [op], v)))
    return out


def run(ctx):
    from ..run import merge
    seed = ctx.seed
    names = [n for n in FILES if n != 'contig3'] + DERIVED
    depth = 3 if ctx.tier == 'quick' else 4
    items = []
    for n in names:
        alpha = expectations(n, seed)[0]
        for o1 in alpha:
            for o2 in alpha:
                items.append((n, seed, [o1, o2], depth))
        items.append((n, seed, [], 1))
    for n in LONG:
        alpha = expectations(n, seed)[0]
        items += [(n, seed, [o1], 3 if n == 'long' else 2) for o1 in alpha]
    m = merge(ctx.map(_tree_worker, items, chunksize=8))
    # BFS with state keys
    bfs_depth = 5 if ctx.tier == 'quick' else 7
    states = 0
    transitions = 0
    bfs_viol = []
    per_file = {}
    for n in names:
        alpha = expectations(n, seed)[0]
        seen = {'<init>'}
        frontier = [[]]
        d = 0
        while frontier and d < bfs_depth:
            if ctx.expired():
                ctx.cap('BFS of file %s stopped by VERIF_BUDGET_S at depth %d' % (n, d))
                break
            if len(frontier) > 20000:
                # (the largest frontier on the current tree is a few thousand states; keys that never repeat would make it explode)
                ctx.cap('BFS of file %s stopped at depth %d: frontier of %d states does not converge' % (n, d, len(frontier)))
                break
            rs = ctx.map_ordered(_bfs_worker, [(n, seed, h) for h in frontier], 4)
            nxt = []
            for h, r in zip(frontier, rs):
                for oi, key, viol in r:
                    transitions += 1
                    if viol is not None:
                        bfs_viol.append(viol)
                    elif key not in seen:
                        seen.add(key)
                        nxt.append(h + [alpha[oi]])
            frontier = nxt
            d += 1
        per_file[n] = {'states': len(seen), 'depth': d, 'fixpoint': not frontier}
        states += len(seen)
    c = m['counters']
    vac = []
    if not c.get('gen_interleaved'):
        vac.append('no history interleaved a generator step with another read')
    cov = {'states': states, 'transitions': transitions,
           'traces_validated_against_impl': c['histories'] + transitions,
           'evaluations': c['histories'] + transitions, 'distinct_nontrivial': c['nontrivial'],
           'rule': 'distinct operation sequences (full tree) of length >= 2 using >= 2 operation kinds; each is replayed on a '
                   'freshly opened file and all live generators are drained at the end',
           'full_tree': {'depth': depth, 'histories': c['histories'], 'files': names,
                         'alphabet': [repr(o) for o in expectations(names[0], seed)[0]]},
           'bfs': {'max_depth': bfs_depth, 'per_file': per_file},
           'gen_interleaved_histories': c.get('gen_interleaved', 0), 'outcomes': m['outcomes'],
           'samples': m['samples'][:5], 'exhaustive': True, 'vacuity_failures': vac}
    return cov, m['violations'] + bfs_viol


def replay(case):
    v, _k, _n = run_history(case['file'], case.get('seed', 0), case['ops'])
    if v is None:
        return False, 'every operation equals its fresh-file result', 'equal'
    vio = mkviolation(case['file'], case.get('seed', 0), case['ops'], v)
    return True, vio['expected'], vio['observed']
