"""C11 - DAQmx raw data is decoded at the declared buffer, stride, offset and type.   (exploration)

Family A  one channel, one format-changing scaler: every scaler type x buffer width (size + padding 0/1/3) x EVERY byte
          offset at which the scaler fits x rows {1,2,3} x chunks {1,2,3} x byte order x {DAQmx-typed, plain-typed channel}
Family B  digital-line scalers: types u8/u16/u32 x widths x EVERY bit offset x rows x chunks
Family T  truncation: every cut inside the last segment of two-buffer layouts with different widths (whole rows only)
Family C  2-3 channels, 1-2 scalers each, 1-2 raw buffers of different widths and lengths: every placement of the
          second scaler, every ordered pair of scaler types from a subset, chunks {1,2,3}, both byte orders
Family D  one channel whose scalers live in several raw buffers listed in non-adjacent order
Family E  a later segment restates the indexes (same, scaler records permuted, other row count) or switches channels to
          'no data' in 1-2 buffer layouts, carried-over or new object list, followed by a metadata-less segment
Family S  a segment that is complete by its own offsets but whose raw data stops EVERY possible number of bytes short of its
          last chunk, in NON-final position (1-2 buffers of differing widths and lengths), followed by a segment that reuses the
          indexes and a metadata-less one: everything before the short chunk and everything after the segment must be exact
          (and, for one buffer, the rows of the short chunk that are wholly there); eager == lazy == windows == chunk streams
Oracle: bytes at chunk_base + buffer_base + row*width + offset of a fixed non-repeating filler pattern (phase rotated by
VERIF_SEED), decoded independently; lazy windows and chunk streams must equal slices of the eager result.
"""
import io

from .. import tdmsgen as G
from .. import harness as H
from .. import families as F

ID = 'C11'
LEVEL = 'exploration'
TECHNIQUE = 'bounded-exhaustive enumeration of DAQmx layouts (all offsets x widths x types x rows x chunks x byte orders) on the real reader vs independent byte-offset oracle'
LEVEL_TEXT = ('Three finite families of DAQmx segments are enumerated completely (every byte/bit offset at which a scaler fits, every '
              'scaler type, padding, rows, chunks, byte order, 1-2 buffers of differing widths/lengths, 1-3 channels); the real '
              'reader result (eager, lazy windows, chunk streams) is compared with an independent extraction of the bytes.')
LEVEL_NOTE = ('Trusted: the DAQmx raw-data-index encoder in mc/tdmsgen.py (written from the format description; Digital_Input.tdms and '
              'raw1.tdms from LabVIEW are decoded structurally by selftest). For digital-line scalers wider than one byte the addressed '
              'bit is bit (offset mod 8) of the word read at byte offset (offset div 8) in the byte order of the segment.')
ASSUMPTIONS = ['raw buffers that hold scalers of one channel have equal lengths', 'buffer bytes are a fixed pattern, not random (VERIF_SEED rotates its phase)']

A, B, C = F.A, F.B, F.C
CODE2TYPE = {0: 'Uint8', 1: 'Int8', 2: 'Uint16', 3: 'Int16', 4: 'Uint32', 5: 'Int32', 6: 'Uint64', 7: 'Int64', 8: 'SingleFloat', 9: 'DoubleFloat'}


def nscales(scalers):
    return [F._uprop('NI_Number_Of_Scales', max(s[4] for s in scalers) + 1)]


def fam_a():
    for code, (size, _f) in G.DAQMX_TYPES.items():
        for pad in (0, 1, 3):
            width = size + pad
            for off in range(0, width - size + 1):
                for n in (1, 2, 3):
                    for chunks in (1, 2, 3):
                        for big in (False, True):
                            for dtype in ('DaqMxRawData', CODE2TYPE[code]):
                                # the channel's only scaler need not have id 0
                                for sid in ((0, 1, 3) if (dtype == 'DaqMxRawData' and pad == 1) else (0,)):
                                    sc = [(code, 0, off, 0, sid)]
                                    enc = F.daqmx_enc(n, sc, [width], 'fc', dtype)
                                    yield ('A', [G.seg([(A, enc, nscales(sc) if dtype == 'DaqMxRawData' else [])], chunks=chunks, big=big)])


def fam_b():
    for code in (0, 2, 4):
        size = G.DAQMX_TYPES[code][0]
        for width in (size, size + 1):
            for bit in range(0, 8 * (width - size + 1)):
                for n in (1, 3):
                    for chunks in (1, 2):
                        for big in (False, True):
                            sc = [(code, 0, bit, 0, 0)]
                            yield ('B', [G.seg([(A, F.daqmx_enc(n, sc, [width], 'dl'), nscales(sc))], chunks=chunks, big=big)])
    # lines sharing one byte: a port exactly as wide as the scaler type, and chunks of a single row
    for width, n in ((1, 3), (1, 1), (2, 1), (3, 1)):
        for chunks in (1, 2, 3):
            for big in (False, True):
                objs = [("/'g'/'l%d'" % b, F.daqmx_enc(n, [(0, 0, b, 0, 0)], [width], 'dl'), nscales([(0, 0, b, 0, 0)])) for b in (0, 1, 5, 7)]
                yield ('B', [G.seg(objs, chunks=chunks, big=big)])
    for chunks in (1, 2):
        sc = [(4, 0, 0, 0, 0), (4, 0, 3, 0, 1), (4, 0, 7, 0, 2)]
        yield ('B', [G.seg([(A, F.daqmx_enc(2, sc, [4], 'dl'), nscales(sc))], chunks=chunks)])
    # two cards: digital lines at the same byte offset and of the same type in different raw buffers (of different widths and lengths)
    for chunks in (1, 2):
        for big in (False, True):
            for widths, n0, n1 in (([2, 1], 2, 3), ([1, 1], 3, 2), ([1, 3], 2, 2)):
                objs = [("/'g'/'p0l3'", F.daqmx_enc(n0, [(0, 0, 3, 0, 0)], widths, 'dl'), nscales([(0, 0, 3, 0, 0)])),
                        ("/'g'/'p1l3'", F.daqmx_enc(n1, [(0, 1, 3, 0, 0)], widths, 'dl'), nscales([(0, 1, 3, 0, 0)])),
                        ("/'g'/'p1l5'", F.daqmx_enc(n1, [(0, 1, 5, 0, 0)], widths, 'dl'), nscales([(0, 1, 5, 0, 0)])),
                        ("/'g'/'p0l5'", F.daqmx_enc(n0, [(0, 0, 5, 0, 0)], widths, 'dl'), nscales([(0, 0, 5, 0, 0)]))]
                yield ('B', [G.seg(objs, chunks=chunks, big=big)])
    # a format-changing scaler at byte offset N next to a digital-line scaler at bit offset N (same type, buffer, id): two kinds of
    # addressing with numerically equal fields, in both declaration orders
    for code in (0, 2):
        size = G.DAQMX_TYPES[code][0]
        for off in (0, 1, 2):
            for chunks in (1, 2):
                fc = ("/'g'/'analog'", F.daqmx_enc(3, [(code, 0, off, 0, 0)], [size + 3], 'fc'), nscales([(code, 0, off, 0, 0)]))
                dl = ("/'g'/'line'", F.daqmx_enc(3, [(code, 0, off, 0, 0)], [size + 3], 'dl'), nscales([(code, 0, off, 0, 0)]))
                yield ('B', [G.seg([fc, dl], chunks=chunks)])
                yield ('B', [G.seg([dl, fc], chunks=chunks)])
    # several digital lines of one port as several channels
    for chunks in (1, 2):
        objs = [("/'g'/'line%d'" % b, F.daqmx_enc(2, [(0, 0, b, 0, 0)], [2], 'dl'), nscales([(0, 0, b, 0, 0)])) for b in range(0, 16, 3)]
        yield ('B', [G.seg(objs, chunks=chunks)])


def fam_c(tier):
    codes = [3, 5, 8, 9, 0] if tier == 'quick' else [0, 1, 2, 3, 4, 5, 6, 7, 8, 9]
    for nbuf in (1, 2):
        for c1 in codes:
            for c2 in codes:
                s1, s2 = G.DAQMX_TYPES[c1][0], G.DAQMX_TYPES[c2][0]
                w0 = s1 + s2 + 1
                for off2 in range(0, w0 - s2 + 1, 1 if tier == 'thorough' else max(1, s1)):
                    for chunks in (1, 2, 3) if tier == 'thorough' else (1, 2):
                        for big in (False, True):
                            widths = [w0] if nbuf == 1 else [w0, 5]
                            na, nb = (2, 2) if nbuf == 1 else (2, 3)
                            sa = [(c1, 0, 0, 0, 0), (c2, 0, off2, 0, 1)]
                            sb = [(3, nbuf - 1, 1, 0, 0)]
                            objs = [(A, F.daqmx_enc(na, sa, widths), nscales(sa)), (B, F.daqmx_enc(nb if nbuf == 2 else na, sb, widths), nscales(sb))]
                            if nbuf == 2 and c1 == c2:
                                sc3 = [(1, 0, w0 - 1, 0, 0)]
                                objs.append((C, F.daqmx_enc(na, sc3, widths), nscales(sc3)))
                            yield ('C', [G.seg(objs, chunks=chunks, big=big), G.seg([], meta=False, chunks=1, big=big)])
                            if chunks == 1 and off2 == 0:
                                # byte order is a per-segment flag: metadata-less and 'same as before' segments in the other order
                                same = [(o[0], ['SAME']) for o in objs]
                                yield ('C', [G.seg(objs, chunks=1, big=big), G.seg([], meta=False, chunks=2, big=not big),
                                             G.seg(same, newlist=False, chunks=1, big=big), G.seg(same, newlist=False, chunks=1, big=not big)])


def fam_d():
    """one channel whose scalers live in several raw buffers, listed in non-adjacent buffer order (0, 1, 0) and (1, 0, 1, 0)"""
    for order in ((0, 1, 0), (1, 0, 1, 0), (0, 1, 2), (2, 0, 1, 0)):
        nb = max(order) + 1
        widths = [11, 14, 6][:nb]
        for chunks in (1, 2):
            for big in (False, True):
                used = {}
                sc = []
                for sid, bi in enumerate(order):
                    off = used.get(bi, 0)
                    sc.append((3, bi, off, 0, sid))
                    used[bi] = off + 3
                objs = [(A, F.daqmx_enc(3, sc, widths), nscales(sc))]
                for bi in range(nb):
                    sb = [(1, bi, widths[bi] - 1, 0, 0)]
                    objs.append(("/'g'/'b%d'" % bi, F.daqmx_enc(3, sb, widths), nscales(sb)))
                yield ('D', [G.seg(objs, chunks=chunks, big=big), G.seg([], meta=False, chunks=2, big=big)])


def fam_e():
    """a later segment restates / toggles the indexes of a multi-scaler, 1-2 buffer layout: the same index again, the scaler
    records listed in another order, another number of rows, one channel switched to 'no data' (object list carried over or
    new), then a metadata-less repeat"""
    for widths, na, nb in (([7], 2, 2), ([7, 5], 2, 3), ([7, 5], 3, 2)):
        for big in (False, True):
            sa = [(3, 0, 0, 0, 0), (5, 0, 2, 0, 1)]
            sb = [(3, len(widths) - 1, 1, 0, 0)]
            sc3 = [(1, 0, 6, 0, 0)]
            ea, eb, ec = (A, F.daqmx_enc(na, sa, widths), nscales(sa)), (B, F.daqmx_enc(nb, sb, widths), nscales(sb)), \
                (C, F.daqmx_enc(na, sc3, widths), nscales(sc3))
            first = G.seg([ea, eb, ec], chunks=2, big=big)
            tail = G.seg([], meta=False, chunks=2, big=big)
            ea_perm = (A, F.daqmx_enc(na, sa[::-1], widths))
            seconds = {
                'restated': [ea[:2], eb[:2], ec[:2]], 'permuted': [ea_perm, eb[:2], ec[:2]],
                'rows+1': [(A, F.daqmx_enc(na + 1, sa, widths)), (B, F.daqmx_enc(nb + 1, sb, widths)), (C, F.daqmx_enc(na + 1, sc3, widths))],
                'permuted-only': [ea_perm],
                'A-nodata': [(A, ['NODATA'])], 'B-nodata': [(B, ['NODATA'])], 'C-nodata': [(C, ['NODATA'])],
                'A,C-nodata': [(A, ['NODATA']), (C, ['NODATA'])],
            }
            for name, objs in seconds.items():
                for newlist in (False, True):
                    if newlist and name.endswith('nodata'):
                        # a new object list has to name the channels that keep their data
                        gone = set(o[0] for o in objs)
                        objs2 = [(o[0], ['SAME']) for o in (ea, eb, ec) if o[0] not in gone] + list(objs)
                    else:
                        objs2 = list(objs)
                    for chunks in (1, 2):
                        yield ('E', [first, G.seg(objs2, newlist=newlist, chunks=chunks, big=big), tail])


def fam_t():
    """truncation: every cut inside the last segment of layouts with raw buffers of different widths and lengths"""
    for widths, na, nb in (([8, 2], 2, 3), ([6, 4], 3, 2), ([3, 8], 2, 2), ([4], 3, 3)):
        for chunks in (1, 2):
            for big in (False, True):
                sa = [(3, 0, 0, 0, 0), (0, 0, widths[0] - 1, 0, 1)]
                sb = [(3, len(widths) - 1, 0, 0, 0)]
                objs = [(A, F.daqmx_enc(na, sa, widths), nscales(sa)), (B, F.daqmx_enc(nb if len(widths) > 1 else na, sb, widths), nscales(sb))]
                yield ('T', [G.seg(objs, chunks=chunks, big=big), G.seg([], meta=False, chunks=2, big=big)])


def fam_s():
    """'less data than expected' in the middle of a file: every byte count by which the last chunk of the first segment can be short"""
    for widths, na, nb in (([8, 2], 2, 3), ([3, 8], 2, 2), ([4], 3, 3), ([5], 1, 1)):
        for chunks in (1, 2):
            for big in (False, True):
                sa = [(3, 0, 0, 0, 0), (0, 0, widths[0] - 1, 0, 1)]
                sb = [(3, len(widths) - 1, 0, 0, 0)]
                nb_ = nb if len(widths) > 1 else na
                objs = [(A, F.daqmx_enc(na, sa, widths), nscales(sa)), (B, F.daqmx_enc(nb_, sb, widths), nscales(sb))]
                chunk_bytes = widths[0] * na + (widths[1] * nb if len(widths) > 1 else 0)
                for short in range(1, chunk_bytes):
                    first = G.seg(objs, chunks=chunks, big=big)
                    first['short'] = short
                    yield ('S', [first, G.seg([(A, ['SAME']), (B, ['SAME'])], newlist=False, chunks=1, big=big),
                                 G.seg([], meta=False, chunks=2, big=big)])


def check_short(hist, seed):
    """-> (n, problems) for a family-S file.  The format does not say what an incomplete chunk in the middle of a file means, so the
    oracle claims only what the property does: values before the short chunk and values of the later segments are the bytes at
    their declared places, nothing is taken from outside the segment (single buffer: the short chunk contributes a prefix of its
    rows, only rows that are wholly present), and every way of reading agrees with the eager read."""
    data, _i, layout, ref = G.encode(hist, seed=seed, ref=G.interpret(hist, seed=seed, lenient=True, filler_phase=seed))
    first = hist[0]
    widths = first['objects'][0]['enc'][1]['widths']
    nbuf = len(widths)
    present = layout[0]['end'] - layout[0]['data_start']
    chunk_bytes = (present + first['short']) // first['chunks']
    c_full = present // chunk_bytes
    avail = present - c_full * chunk_bytes
    n, bad = 1, []
    o = H.observe(data, lazy=False)
    if o[0] != 'ok':
        return n, [('short-raised', 'eager read raised %s: %s' % (o[1], o[2]))]
    for path, val in o[1]['data'].items():
        per_chunk = ref.seg_counts[0].get(path, 0) // first['chunks']
        prefix = c_full * per_chunk
        suffix = sum(ref.seg_counts[si].get(path, 0) for si in range(1, len(hist)))
        items = val[1].items() if val[0] == 'scalers' else [(None, val)]
        for sid, arr in items:
            fullv = ref.scaler_values[path][sid if sid is not None else sorted(ref.scaler_values[path])[0]]
            got_n, got_b = arr[1], arr[2]
            isz = len(fullv[0])
            p_ = got_n - prefix - suffix
            what = '%s scaler %s (short by %d bytes, %d complete chunks)' % (path, sid, first['short'], c_full)
            if o[1]['len'][path] != got_n:
                bad.append(('short-len', '%s: len(channel)=%d but %d values' % (what, o[1]['len'][path], got_n)))
            if p_ < 0 or p_ > per_chunk:
                bad.append(('short-count', '%s: %d values, expected between %d and %d' % (what, got_n, prefix + suffix, prefix + suffix + per_chunk)))
                continue
            if got_b[:prefix * isz] != b''.join(fullv[:prefix]):
                bad.append(('short-prefix', '%s: values of the complete chunks differ' % what))
            if suffix and got_b[-suffix * isz:] != b''.join(fullv[-suffix:]):
                bad.append(('short-suffix', '%s: values of the following segments differ (%s expected %s)' % (
                    what, H._short(got_b[-suffix * isz:]), H._short(b''.join(fullv[-suffix:])))))
            if nbuf == 1:
                if p_ > avail // widths[0]:
                    bad.append(('short-invented', '%s: %d values from a chunk of which only %d whole rows exist' % (what, p_, avail // widths[0])))
                elif got_b[prefix * isz:(prefix + p_) * isz] != b''.join(fullv[prefix:prefix + p_]):
                    bad.append(('short-partial', '%s: rows of the incomplete chunk are not its bytes' % what))
    if bad:
        return n, bad[:4]
    n2, bad2 = check_file(hist, seed, exact=False)
    return n + n2, bad2


def check_truncated(hist, seed):
    """-> (n, problems): every cut of the last segment, eager and lazy, prefix oracle (complete rows only)"""
    from .c06 import observe_cut, judge
    data, _i, layout, ref = G.encode(hist, seed=seed, ref=G.interpret(hist, seed=seed, lenient=True, filler_phase=seed))
    bad = []
    n = 0
    for cut in range(layout[-1]['start'], len(data)):
        for lazy in (False, True):
            n += 1
            o = observe_cut(data[:cut], lazy)
            if o[0] != 'ok':
                bad.append(('truncated-raised', 'cut %d %s: raised %s %s' % (cut, 'lazy' if lazy else 'eager', o[1], o[2])))
                continue
            why = judge(o[1], ref, layout, cut, False)
            if why and why[0] != 'status':
                bad.append(('truncated-' + why[0], 'cut %d %s: %s' % (cut, 'lazy' if lazy else 'eager', why[1])))
        if len(bad) > 3:
            break
    return n, bad


def check_file(hist, seed, windows=True, exact=True):
    """-> (n_checks, list of (kind, message)); exact=False: no comparison with the reference (family S), differential only"""
    data, _i, layout, ref = G.encode(hist, seed=seed, ref=G.interpret(hist, seed=seed, lenient=True, filler_phase=seed))
    bad = []
    n = 0
    o = H.observe(data, lazy=False)
    n += 1
    if o[0] != 'ok':
        return n, [('raised', 'eager read raised %s: %s' % (o[1], o[2]))]
    why = H.compare_with_ref(o[1], ref) if exact else None
    if why:
        bad.append(('eager-differs', why))
    o2 = H.observe(data, lazy=True)
    n += 1
    if o2[0] != 'ok':
        bad.append(('raised', 'lazy read raised %s: %s' % (o2[1], o2[2])))
    elif o2[1] != o[1]:
        bad.append(('lazy-differs', 'lazy full read differs from eager'))
    if bad or not windows:
        return n, bad
    # lazy windows and chunk streams == slices of the eager result
    r = H.guarded(lambda: H.TdmsFile.open(io.BytesIO(data)))
    if r[0] != 'ok':
        return n, [('raised', 'open raised')]
    tf = r[1]
    try:
        eager = H.TdmsFile.read(io.BytesIO(data))
        for g in tf.groups():
            for ch in g.channels():
                ech = eager[g.name][ch.name]
                full = ech.read_data(scaled=False)
                L = len(ch)
                for off in range(0, L + 1):
                    for ln in (None, 0, 1, 2, L):
                        n += 1
                        rr = H.guarded(ch.read_data, off, ln, False)
                        exp = _win(full, off, ln)
                        if rr[0] != 'ok' or _N(rr[1]) != _N(exp):
                            bad.append(('window', '%s read_data(%d,%r,scaled=False): %r expected %r' % (ch.path, off, ln, rr[0] == 'ok' and _N(rr[1]), _N(exp))))
                            break
                n += 1
                rr = H.guarded(lambda: [(c.offset, H.norm_array(c[:])) for c in ch.data_chunks()])
                scaled_full = H.norm_array(ech[:])
                if rr[0] != 'ok':
                    bad.append(('chunks', '%s data_chunks raised %s %s' % (ch.path, rr[1], rr[2])))
                else:
                    off = 0
                    parts = []
                    for co, arr in rr[1]:
                        if co != off:
                            bad.append(('chunks', '%s chunk offset %d expected %d' % (ch.path, co, off)))
                        off += arr[1]
                        parts.append(arr[2])
                    if b''.join(parts) != scaled_full[2]:
                        bad.append(('chunks', '%s concatenated chunk stream differs from eager data' % ch.path))
    finally:
        tf.close()
    return n, bad[:4]


def _win(full, off, ln):
    if isinstance(full, dict):
        return {k: _win(v, off, ln) for k, v in full.items()}
    return full[off:] if ln is None else full[off:off + ln]


def _N(x):
    if isinstance(x, dict):
        return tuple(sorted((int(k), H.norm_array(v)[1:]) for k, v in x.items()))
    return H.norm_array(x)[1:]


def _worker(item):
    fam, hists, seed = item
    res = {'counters': {'layouts': 0, 'checks': 0, 'nontrivial': 0}, 'outcomes': {}, 'violations': [], 'samples': []}
    for h in hists:
        n, bad = check_truncated(h, seed) if fam == 'T' else check_short(h, seed) if fam == 'S' else check_file(h, seed)
        res['counters']['layouts'] += 1
        res['counters']['checks'] += n
        res['counters']['nontrivial'] += 1
        oc = 'equal' if not bad else bad[0][0]
        res['outcomes'][oc] = res['outcomes'].get(oc, 0) + 1
        for kind, msg in bad[:2]:
            if len(res['violations']) < 20:
                d = h[0]['objects'][0]['enc'][1]
                res['violations'].append({'case': {'family': fam, 'history': h, 'seed': seed},
                                          'expected': 'bytes at the declared buffer/stride/offset', 'observed': msg,
                                          'signature': {'kind': kind, 'family': fam, 'scaler_kind': d['kind'],
                                                        'big': bool(h[0].get('big')), 'nbuf': len(d['widths'])}})
        if not res['samples'] and fam == 'C':
            res['samples'].append({'family': fam, 'index': h[0]['objects'][0]['enc'][1], 'chunks': h[0]['chunks'], 'big': h[0]['big']})
    return res


def run(ctx):
    from ..run import merge
    allh = list(fam_a()) + list(fam_b()) + list(fam_c(ctx.tier)) + list(fam_t()) + list(fam_d()) + list(fam_e()) + list(fam_s())
    items = []
    step = 40
    for famname in sorted(set(f for f, _h in allh)):
        fh = [h for f, h in allh if f == famname]
        st = 4 if famname == 'T' else step
        for i in range(0, len(fh), st):
            items.append((famname, fh[i:i + st], ctx.seed))
    m = merge(ctx.map(_worker, items))
    c = m['counters']
    fams = {}
    for f, _h in allh:
        fams[f] = fams.get(f, 0) + 1
    cov = {'evaluations': c['checks'], 'layouts': c['layouts'], 'families': fams, 'distinct_nontrivial': c['nontrivial'],
           'rule': 'distinct DAQmx layouts (parameter tuples), all data-bearing; evaluations = whole-file reads + lazy windows + chunk streams compared',
           'outcomes': m['outcomes'], 'samples': m['samples'][:3], 'exhaustive': True,
           'vacuity_failures': [] if all(fams.get(k) for k in 'ABCTS') else ['a family is empty']}
    return cov, m['violations']


def replay(case):
    if case.get('family') == 'T':
        n, bad = check_truncated(case['history'], case.get('seed', 0))
    elif case.get('family') == 'S':
        n, bad = check_short(case['history'], case.get('seed', 0))
    else:
        n, bad = check_file(case['history'], case.get('seed', 0))
    if bad:
        return True, 'bytes at the declared buffer/stride/offset', bad[0][1]
    return False, 'equal', 'equal'
