"""C10 - Defragmenting a file preserves its content.   (exploration)

Every non-DAQmx file of the cross-section family F3 plus heavily fragmented files (one value per segment,
channels alternating), empty / property-only / no-data-type channels, empty string and timestamp channels,
raw timestamps with non-microsecond fractions and scaling properties is defragmented with the real
TdmsWriter.defragment for destination in {path, stream} x index {off, on} x version {4712, 4713}; source
and copy are read with raw_timestamps=True and compared.
"""
import io
import os
import shutil
import tempfile

from .. import tdmsgen as G
from .. import harness as H
from .. import families as F

ID = 'C10'
LEVEL = 'exploration'
TECHNIQUE = 'complete product of source files x destination kinds x index x version through the real defragment; differential oracle (source vs copy, raw timestamps)'
LEVEL_TEXT = ('All files of a finite family (cross-section F3 without DAQmx, fragmented files, empty / untyped / property-only '
              'channels, raw timestamps, scaled channels) x destination (path/stream) x index (off/on) x version are defragmented '
              'by the real code; groups, channels, properties (timestamps raw), lengths, raw values (bit-exact), dtypes (when '
              'non-empty) and scaled data of source and copy are compared.')
LEVEL_NOTE = 'Differential oracle; both sides are read by the real TdmsFile with raw_timestamps=True (reader correctness is C01/C02).'
ASSUMPTIONS = ['copy is compared both with the source as read by the real reader (differential) and with the reference interpretation of the source (absolute)', 'order of groups/channels in the copy is not judged (the statement speaks of the same groups and channels)']

A, B, C = F.A, F.B, F.C


def extra_files():
    out = []
    frag = []
    for i in range(6):
        frag.append(G.seg([(A if i % 2 == 0 else B, ['FULL', 'Int32' if i % 2 == 0 else 'DoubleFloat', 1])]))
    out.append(('frag/alternating', frag))
    out.append(('frag/one-value-per-segment', [G.seg([(A, ['FULL', 'Int16', 1]), (C, ['FULL', 'String', 1, 2])])] +
                [G.seg([], meta=False) for _ in range(5)]))
    ts = [['t', 'TimeStamp', G._ts(3600000000, 0x123456789ABCDEF1).hex()], ['u', 'TimeStamp', G._ts(-5, 1).hex()]]
    out.append(('props/raw-timestamps', [G.seg([('/', ['NODATA'], ts), ("/'g'", ['NODATA'], ts), (A, ['FULL', 'TimeStamp', 3], ts)], chunks=2)]))
    out.append(('props/property-only-channel', [G.seg([(A, ['NODATA'], [['p', 'Int32', '05000000']]), (B, ['FULL', 'Int8', 2])])]))
    out.append(('props/all-types', [G.seg([(A, ['FULL', 'Int8', 1],
                                           [['p_' + t, t, (G.POOLS[t][0] if t != 'String' else 'é'.encode()).hex()] for t in G.PROP_TYPES])])]))
    import struct as _st
    edge = [['u63m', 'Uint64', _st.pack('<Q', 2 ** 63 - 1).hex()], ['u63', 'Uint64', _st.pack('<Q', 2 ** 63).hex()],
            ['u63p', 'Uint64', _st.pack('<Q', 2 ** 63 + 1).hex()], ['umax', 'Uint64', _st.pack('<Q', 2 ** 64 - 1).hex()],
            ['imin', 'Int64', _st.pack('<q', -2 ** 63).hex()], ['i31', 'Int64', _st.pack('<q', 2 ** 31).hex()],
            ['i31m', 'Int32', _st.pack('<i', 2 ** 31 - 1).hex()], ['i31n', 'Int32', _st.pack('<i', -2 ** 31).hex()],
            ['i31nn', 'Int64', _st.pack('<q', -2 ** 31 - 1).hex()], ['u32', 'Uint32', _st.pack('<I', 2 ** 32 - 1).hex()]]
    out.append(('props/integer-boundaries', [G.seg([('/', ['NODATA'], edge), ("/'g'", ['NODATA'], edge), (A, ['FULL', 'Int8', 1], edge)])]))
    out.append(('empty/typed-int', [G.seg([(A, ['FULL', 'Int32', 0]), (B, ['FULL', 'Int8', 2])])]))
    out.append(('empty/string', [G.seg([(A, ['FULL', 'String', 0, 0]), (B, ['FULL', 'Int8', 2])])]))
    out.append(('empty/timestamp', [G.seg([(A, ['FULL', 'TimeStamp', 0]), (B, ['FULL', 'Int8', 2])])]))
    out.append(('empty/complex', [G.seg([(A, ['FULL', 'ComplexSingleFloat', 0])])]))
    out.append(('empty/no-type-only', [G.seg([(A, ['NODATA'])])]))
    out.append(('empty/file-without-objects', [G.seg([])]))
    out.append(('empty/group-only', [G.seg([("/'g'", ['NODATA'], [['p', 'String', '61']])])]))
    cjk = ['日本語日本語日本語', '😀😀😀😀', '語語語']   # UTF-8 size more than twice the character count
    hx = [x.encode('utf-8').hex() for x in cjk]
    out.append(('strings/multibyte', [G.seg([(A, ['FULL', 'String', len(cjk), sum(len(x) // 2 for x in hx), hx]), (B, ['FULL', 'Int8', 1])], chunks=2)]))
    for t in ('Int16', 'Int32', 'DoubleFloat', 'SingleFloat', 'Uint64', 'ComplexDoubleFloat', 'TimeStamp', 'String'):
        e = ['FULL', 'String', 2, 5] if t == 'String' else ['FULL', t, 2]
        out.append(('big-endian/single-chunk/' + t, [G.seg([(A, e), (B, ['FULL', 'Int8', 1])], chunks=1, big=True)]))
        out.append(('big-endian/two-chunks/' + t, [G.seg([(A, e), (B, ['FULL', 'Int8', 1])], chunks=2, big=True), G.seg([(A, e)], big=False)]))
    out.append(('names/quotes', [G.seg([("/'it''s'/'a/b'", ['FULL', 'Int16', 2]), ("/'it''s'/''", ['FULL', 'Int16', 1])])]))
    out.append(('mixed-endian-ts', [G.seg([(A, ['FULL', 'TimeStamp', 2])], big=True), G.seg([(A, ['FULL', 'TimeStamp', 2])])]))
    return out


def snapshot(tf):
    out = {'root': [(k, H.norm_prop(v)) for k, v in tf.properties.items()], 'groups': {}, 'channels': {}}
    for g in tf.groups():
        out['groups'][g.name] = [(k, H.norm_prop(v)) for k, v in g.properties.items()]
        for ch in g.channels():
            raw = ch.read_data(scaled=False)
            rawn = H.norm_array(raw)
            scaled = H.guarded(lambda: H.norm_array(ch[:]))
            out['channels'][(g.name, ch.name)] = {'props': [(k, H.norm_prop(v)) for k, v in ch.properties.items()], 'len': len(ch),
                                                  'raw': rawn, 'scaled': scaled}
    return out


def compare(src, dst):
    if sorted(src['groups']) != sorted(dst['groups']):
        return ('groups', 'groups %r -> %r' % (sorted(src['groups']), sorted(dst['groups'])))
    if sorted(src['channels']) != sorted(dst['channels']):
        return ('channels', 'channels %r -> %r' % (sorted(src['channels']), sorted(dst['channels'])))
    if sorted(src['root']) != sorted(dst['root']):
        return ('root-props', 'root properties %r -> %r' % (src['root'], dst['root']))
    for g in src['groups']:
        if sorted(src['groups'][g]) != sorted(dst['groups'][g]):
            return ('group-props', 'properties of group %r: %r -> %r' % (g, src['groups'][g], dst['groups'][g]))
    for k, a in src['channels'].items():
        b = dst['channels'][k]
        if sorted(a['props']) != sorted(b['props']):
            return ('channel-props', 'properties of %r: %r -> %r' % (k, a['props'], b['props']))
        if a['len'] != b['len'] or a['raw'][1] != b['raw'][1]:
            return ('length', 'length of %r: %d -> %d' % (k, a['len'], b['len']))
        if a['len'] and a['raw'][2] != b['raw'][2]:
            return ('raw-values', 'raw values of %r differ: %s -> %s' % (k, H._short(a['raw'][2]), H._short(b['raw'][2])))
        if a['len'] >= 1 and a['raw'][0] != b['raw'][0]:
            return ('dtype', 'dtype of %r: %s -> %s' % (k, a['raw'][0], b['raw'][0]))
        sa, sb = a['scaled'], b['scaled']
        if sa[0] == 'ok' and a['len'] >= 1 and (sb[0] != 'ok' or sa[1][1:] != sb[1][1:] or sa[1][0] != sb[1][0]):
            return ('scaled', 'scaled data of %r: %r -> %r' % (k, sa, sb))
    return None


def compare_ref(ref, dst):
    """absolute oracle: the copy's raw values against the reference interpretation of the source
    (a reader defect that misreads source and copy alike is invisible to the differential comparison)"""
    for path in ref.order:
        if not H._is_channel(path) or isinstance(ref.dtype.get(path), tuple):
            continue
        comps = H._components(path)
        got = dst['channels'].get((comps[0], comps[1]))
        if got is None:
            return ('channels', 'channel %s missing in the copy' % path)
        exp = H.expected_array(ref, path)
        if exp[0] is None or exp[1] == 0:
            if got['len'] != 0:
                return ('length', '%s: copy has %d values, source encodes none' % (path, got['len']))
            continue
        if got['raw'][1] != exp[1] or got['raw'][2] != exp[2]:
            return ('raw-values-vs-reference', 'raw values of %s in the copy differ from what the source encodes: %s vs %s'
                    % (path, H._short(got['raw'][2]), H._short(exp[2])))
    return None


def run_file(item):
    from nptdms import TdmsWriter
    name, hist, seed = item
    data, _i, _l, ref = G.encode(hist, seed=seed)
    res = {'counters': {'files': 1, 'defrags': 0, 'nontrivial': 0}, 'outcomes': {}, 'violations': [], 'samples': []}
    r = H.guarded(lambda: snapshot(H.TdmsFile.read(io.BytesIO(data), raw_timestamps=True)))
    if r[0] != 'ok':
        res['violations'].append(_viol(name, hist, seed, None, 'source readable', repr(r), 'source-raised'))
        return res
    src = r[1]
    if any(c['len'] for c in src['channels'].values()):
        res['counters']['nontrivial'] = 1
    tmp = H.scratch('verif_c10_')
    try:
        spath = os.path.join(tmp, 's.tdms')
        with open(spath, 'wb') as f:
            f.write(data)
        for dest in ('stream', 'path'):
            for index in (False, True):
                for version in (4712, 4713):
                    for source_kind in ('stream', 'path'):
                        res['counters']['defrags'] += 1
                        cfg = {'dest': dest, 'index': index, 'version': version, 'source': source_kind}

                        def go():
                            s = io.BytesIO(data) if source_kind == 'stream' else spath
                            if dest == 'stream':
                                out = io.BytesIO()
                                iout = io.BytesIO() if index else False
                                TdmsWriter.defragment(s, out, version=version, index_file=iout)
                                return out.getvalue(), (iout.getvalue() if index else None)
                            dpath = os.path.join(tmp, 'd.tdms')
                            for p in (dpath, dpath + '_index'):
                                if os.path.exists(p):
                                    os.remove(p)
                            TdmsWriter.defragment(s, dpath, version=version, index_file=index)
                            return open(dpath, 'rb').read(), (open(dpath + '_index', 'rb').read() if index else None)
                        r = H.guarded(go)
                        if r[0] != 'ok':
                            res['violations'].append(_viol(name, hist, seed, cfg, 'defragment succeeds', 'raised %s: %s' % (r[1], r[2]), 'defragment-raised'))
                            continue
                        out, iout = r[1]
                        rr = H.guarded(lambda: H.TdmsFile.read(io.BytesIO(out), raw_timestamps=True))
                        if rr[0] != 'ok':
                            res['violations'].append(_viol(name, hist, seed, cfg, 'copy readable', 'raised %s: %s' % (rr[1], rr[2]), 'copy-unreadable'))
                            continue
                        if rr[1].tdms_version != version:
                            res['violations'].append(_viol(name, hist, seed, cfg, version, rr[1].tdms_version, 'version'))
                        snap = snapshot(rr[1])
                        why = compare(src, snap) or (None if any(sg.get('short') for sg in hist) else compare_ref(ref, snap))
                        if why:
                            res['violations'].append(_viol(name, hist, seed, cfg, 'copy == source', why[1], why[0]))
                        if index and iout is not None:
                            ri = H.guarded(lambda: H.TdmsFile.read_metadata(io.BytesIO(iout)))
                            if ri[0] != 'ok':
                                res['violations'].append(_viol(name, hist, seed, cfg, 'index readable', repr(ri), 'index-unreadable'))
    finally:
        shutil.rmtree(tmp, ignore_errors=True)
    res['outcomes']['preserved' if not res['violations'] else 'changed'] = 1
    res['violations'] = res['violations'][:8]
    if name.startswith(('frag', 'props')):
        res['samples'].append({'file': name, 'history': G.describe(hist)[:4], 'defragmentations': res['counters']['defrags']})
    return res


def _viol(name, hist, seed, cfg, exp, got, kind):
    return {'case': {'file': name, 'history': hist, 'seed': seed, 'config': cfg}, 'expected': exp, 'observed': got,
            'signature': {'kind': kind, 'family': '/'.join(name.split('/')[:2]) if name.startswith(('empty', 'special')) else name.split('/')[0]}}


def run(ctx):
    from ..run import merge
    fl = [x for x in F.f3_files(ctx.tier, daqmx=False)] + extra_files()
    if ctx.tier == 'thorough':
        fl += [('f6/' + n, h) for n, h in F.f6_files('thorough') if not n.startswith('daqmx')]
    m = merge(ctx.map(run_file, [(n, h, ctx.seed) for n, h in fl]))
    c = m['counters']
    cov = {'evaluations': c['defrags'], 'files': c['files'], 'distinct_nontrivial': c['nontrivial'],
           'rule': 'evaluations = defragment runs (file x destination x index x version x source kind); distinct_nontrivial = '
                   'distinct source files holding at least one value',
           'outcomes': m['outcomes'], 'samples': m['samples'][:4], 'exhaustive': True,
           'vacuity_failures': [] if c['defrags'] else ['nothing defragmented']}
    return cov, m['violations']


def replay(case):
    r = run_file((case['file'], case['history'], case.get('seed', 0)))
    for v in r['violations']:
        if v['case']['config'] == case.get('config'):
            return True, v['expected'], v['observed']
    if r['violations']:
        return True, r['violations'][0]['expected'], r['violations'][0]['observed']
    return False, 'copy == source', 'equal'
