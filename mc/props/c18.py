"""C18 - Thermocouple conversions follow the NIST ITS-90 reference functions.   (exploration; weakest fit)

types B,E,J,K,N,R,S,T x {forward, inverse} x a uniform grid over the type's range (10^5 quick / 10^6 thorough
points per type and direction) + every piece boundary and its floating point neighbours (two steps each side);
ThermocoupleScaling for all 8 type codes x both directions on float32 / float64 input.
Oracle: the NIST SRD-60 coefficient tables shipped with `thermocouples_reference` (an independent transcription;
only its DATA is used, evaluated by our own Horner + type-K Gaussian term).
"""
import math

import numpy as np

from .. import harness as H

ID = 'C18'
LEVEL = 'exploration'
TECHNIQUE = 'exhaustive enumeration of a stated dense grid plus all piece boundaries and float neighbours, real conversion code vs independently transcribed NIST coefficient tables'
LEVEL_TEXT = ('For each of the 8 types: temperature->voltage on a dense uniform grid plus every piece boundary and two float neighbours '
              'each side equals the NIST reference function (within 64 eps x polynomial condition, at most 1e-8 mV), is monotone wherever the reference is, never NaN; '
              'voltage->temperature of the reference voltage is within the largest NIST-stated inverse error of that type (0.02-0.06 C, +0.003 slack) over the NIST inverse ranges; '
              'ThermocoupleScaling applies the direction and the microvolt convention for all 8 codes on float32/float64 input.')
LEVEL_NOTE = ('A grid, however dense, is not the real line: a deviation confined between two grid points (< 0.02 C wide) would be missed. '
              'Trusted: thermocouples_reference coefficient tables (independent transcription of NIST SRD 60) and the NIST inverse '
              'ranges hard-coded below; inverse bound = the NIST-stated error of the inverse polynomial covering the voltage (per piece, e.g. R 11.361-19.739 mV: 0.001 C) + 5% + 0.0001 C.')
ASSUMPTIONS = ['NIST inverse validity ranges transcribed by hand from the ITS-90 tables']

TYPES = 'BEJKNRST'
CODES = {'B': 10047, 'E': 10055, 'J': 10072, 'K': 10073, 'N': 10077, 'R': 10082, 'S': 10085, 'T': 10086}
INV_RANGE = {'B': (250.0, 1820.0), 'E': (-200.0, 1000.0), 'J': (-210.0, 1200.0), 'K': (-200.0, 1372.0), 'N': (-200.0, 1300.0),
             'R': (-50.0, 1768.1), 'S': (-50.0, 1768.1), 'T': (-200.0, 400.0)}


# largest error magnitude NIST states for the inverse polynomials of each type (max over its pieces), deg C
INV_BOUND = {'B': 0.03, 'E': 0.03, 'J': 0.05, 'K': 0.06, 'N': 0.04, 'R': 0.02, 'S': 0.02, 'T': 0.04}
INV_SLACK = 0.003
# NIST-stated error magnitude of each inverse polynomial, by its voltage range in mV (ranges overlap for R and S; where two
# pieces cover a voltage the larger bound applies).  Slack: 5% of the bound + 0.0001 C (the stated bounds are rounded).
INV_PIECES = {
    'B': [((0.291, 2.431), 0.03), ((2.431, 13.820), 0.02)],
    'E': [((-8.825, 0.0), 0.03), ((0.0, 76.373), 0.02)],
    'J': [((-8.095, 0.0), 0.05), ((0.0, 42.919), 0.04), ((42.919, 69.553), 0.04)],
    'K': [((-5.891, 0.0), 0.04), ((0.0, 20.644), 0.05), ((20.644, 54.886), 0.06)],
    'N': [((-3.990, 0.0), 0.03), ((0.0, 20.613), 0.03), ((20.613, 47.513), 0.04)],
    'R': [((-0.226, 1.923), 0.02), ((1.923, 13.228), 0.005), ((11.361, 19.739), 0.001), ((19.739, 21.103), 0.002)],
    'S': [((-0.235, 1.874), 0.02), ((1.874, 11.950), 0.01), ((10.332, 17.536), 0.0002), ((17.536, 18.693), 0.002)],
    'T': [((-5.603, 0.0), 0.04), ((0.0, 20.872), 0.03)],
}


def inverse_bound(letter, v):
    """allowed |error| per voltage: largest stated bound among the NIST pieces covering it (type bound outside all pieces)"""
    out = np.zeros(v.shape)
    for (a, b), bound in INV_PIECES[letter]:
        m = (v >= a - 1e-9) & (v <= b + 1e-9)
        out[m] = np.maximum(out[m], bound * 1.05 + 0.0001)
    out[out == 0] = INV_BOUND[letter] + INV_SLACK
    return out



def table(letter):
    import thermocouples_reference as tr
    out = []
    for row in tr.thermocouples[letter].func.table:
        tmin, tmax, coefs = float(row[0]), float(row[1]), [float(c) for c in row[2]]
        ext = row[3] if len(row) > 3 else None
        out.append((tmin, tmax, coefs, [float(x) for x in ext] if ext is not None else None))
    return out


def ref_forward(tab, T):
    """vectorised Horner over the NIST pieces; half-open [tmin, tmax) except the last piece which is closed"""
    T = np.asarray(T, dtype=np.float64)
    out = np.full(T.shape, np.nan)
    for i, (tmin, tmax, coefs, ext) in enumerate(tab):
        last = i == len(tab) - 1
        first = i == 0
        m = ((T >= tmin) | (first & (T < tmin) & False)) & ((T < tmax) | (last & (T <= tmax)))
        if not m.any():
            continue
        x = T[m]
        acc = np.zeros_like(x)
        for c in coefs:          # highest power first
            acc = acc * x + c
        if ext is not None:
            a0, a1, a2 = ext
            acc = acc + a0 * np.exp(a1 * (x - a2) ** 2)
        out[m] = acc
    return out


def ref_condition(tab, T):
    """sum of |c_k| |T|^k (+ |exponential term|): scale of the rounding noise any float64 evaluation order may show"""
    T = np.abs(np.asarray(T, dtype=np.float64))
    out = np.zeros(T.shape)
    for i, (tmin, tmax, coefs, ext) in enumerate(tab):
        acc = np.zeros_like(T)
        for c in coefs:
            acc = acc * T + abs(c)
        out = np.maximum(out, acc + (abs(ext[0]) if ext else 0.0))
    return out


def module_for(letter):
    import nptdms.thermocouples as tc
    return getattr(tc, 'type_' + letter.lower())


def neighbours(b, lo, hi):
    pts = [b]
    x = b
    for _ in range(2):
        x = math.nextafter(x, -math.inf)
        pts.append(x)
    x = b
    for _ in range(2):
        x = math.nextafter(x, math.inf)
        pts.append(x)
    return [p for p in pts if lo <= p <= hi]


def run_type(item):
    letter, npts, seed = item
    tab = table(letter)
    tc = module_for(letter)
    lo, hi = tab[0][0], tab[-1][1]
    res = {'counters': {'forward_points': 0, 'inverse_points': 0, 'boundary_points': 0, 'scaling_points': 0}, 'violations': [], 'samples': [],
           'worst': {}}

    def bad(kind, exp, got, where):
        if len([v for v in res['violations'] if v['signature']['kind'] == kind]) < 3:
            res['violations'].append({'case': {'type': letter, 'kind': kind, 'at': where}, 'expected': exp, 'observed': got,
                                      'signature': {'kind': kind, 'type': letter}})
    # grid: the phase of the grid is rotated by the seed, the end points are always included
    phase = (seed % 7) / 7.0
    grid = lo + (hi - lo) * (np.arange(npts) + phase) / npts
    grid = np.concatenate([[lo], grid[grid < hi], [hi]])
    bpts = []
    for (tmin, tmax, _c, _e) in tab:
        bpts += neighbours(tmin, lo, hi) + neighbours(tmax, lo, hi)
    if letter == 'K':
        bpts += neighbours(0.0, lo, hi)
    bpts = np.array(sorted(set(bpts)))
    for name, pts in (('grid', grid), ('boundary', bpts)):
        r = H.guarded(lambda: tc.celsius_to_mv(pts))
        if r[0] != 'ok':
            bad('forward-raised', 'values', repr(r), name)
            continue
        got = np.asarray(r[1], dtype=np.float64)
        exp = ref_forward(tab, pts)
        res['counters']['forward_points' if name == 'grid' else 'boundary_points'] += len(pts)
        nan = np.isnan(got)
        if nan.any():
            bad('forward-nan', 'finite', 'NaN at T=%r' % float(pts[nan][0]), name)
        d = np.abs(got - exp)
        d[nan] = 0
        w = float(np.nanmax(d)) if len(d) else 0.0
        res['worst']['forward_' + name] = w
        # tolerance: 64 eps x condition of the polynomial at that point (any evaluation order stays far inside), never above 1e-8 mV
        tol = np.minimum(1e-8, 1e-13 + 64 * 2.2e-16 * ref_condition(tab, pts))
        if (d > tol).any():
            j = int(np.nanargmax(d - tol))
            w = float(d[j])
            bad('forward-differs', '%.12g mV at T=%r' % (exp[j], float(pts[j])), '%.12g mV (|diff| %.3g)' % (got[j], w), name)
        if name == 'grid':
            de, dg = np.diff(exp), np.diff(got)
            wrong = (de > 0) & ~(dg > 0)
            if wrong.any():
                j = int(np.nonzero(wrong)[0][0])
                bad('not-increasing', 'increasing at T=%r' % float(pts[j]), 'step %.3g' % dg[j], name)
    # elementwise: a NaN sample somewhere in the array must not change the conversion of the other samples (both directions)
    for fn_name, fn, pts in (('forward', tc.celsius_to_mv, bpts), ('inverse', tc.mv_to_celsius, ref_forward(tab, bpts))):
        for pos in (0, len(pts) // 2, len(pts) - 1):
            x = np.array(pts, dtype=np.float64)
            plain = H.guarded(lambda: np.asarray(fn(x.copy()), dtype=np.float64))
            x[pos] = np.nan
            withnan = H.guarded(lambda: np.asarray(fn(x.copy()), dtype=np.float64))
            res['counters']['boundary_points'] += len(pts)
            if plain[0] != 'ok' or withnan[0] != 'ok':
                bad('elementwise-raised', 'values', repr((plain[:2], withnan[:2])), fn_name)
                break
            keep = np.arange(len(pts)) != pos
            if not np.array_equal(plain[1][keep], withnan[1][keep], equal_nan=True):
                j = int(np.nonzero(keep & ~((plain[1] == withnan[1]) | (np.isnan(plain[1]) & np.isnan(withnan[1]))))[0][0])
                bad('not-elementwise', '%r at input %r' % (float(plain[1][j]), float(pts[j])),
                    '%r when sample %d of the array is NaN' % (float(withnan[1][j]), pos), fn_name)
                break
    # elementwise, second form: what a sample converts to must not depend on WHICH other samples share its array - every ordered pair
    # and every prefix of the boundary points (an array whose maximum is exactly a piece boundary and whose other samples lie in
    # the piece below is the shape a "whole array in one piece" shortcut gets wrong), compared with one-element conversions.
    # The inverse break points are taken from the library only as INPUTS (guarded; the oracle is the one-element conversion).
    ibreaks = []
    try:
        for pl in tc._inverse_polynomials:
            for b_ in (pl.applicable_range.start, pl.applicable_range.end):
                if b_ is not None:
                    ibreaks += neighbours(float(b_), -math.inf, math.inf)
    except Exception:
        pass
    fwd_in = np.array(sorted(set(bpts.tolist())))
    vb = ref_forward(tab, bpts)
    inv_in = np.array(sorted(set([float(x_) for x_ in vb if x_ == x_] + [x_ for x_ in ibreaks if float(np.nanmin(vb)) <= x_ <= float(np.nanmax(vb))])))
    for fn_name, fn, pts in (('forward', tc.celsius_to_mv, fwd_in), ('inverse', tc.mv_to_celsius, inv_in)):
        r1 = H.guarded(lambda: [float(np.asarray(fn(np.array([p_])), dtype=np.float64)[0]) for p_ in pts])
        if r1[0] != 'ok':
            bad('composition-raised', 'values', repr(r1[:3]), fn_name)
            continue
        single = np.array(r1[1])
        arrays = [[i_, j_] for i_ in range(len(pts)) for j_ in range(len(pts)) if i_ != j_] + [list(range(k_)) for k_ in range(3, len(pts) + 1)] \
            + [list(range(k_, len(pts))) for k_ in range(0, len(pts) - 2)]
        stop = False
        for idx in arrays:
            x = pts[idx]
            rr = H.guarded(lambda: np.asarray(fn(x.copy()), dtype=np.float64))
            res['counters']['boundary_points'] += len(idx)
            if rr[0] != 'ok' or len(rr[1]) != len(idx):
                bad('composition-raised', 'values', repr(rr[:3]), fn_name)
                break
            e_ = single[idx]
            both_nan = np.isnan(rr[1]) & np.isnan(e_)
            dd = np.abs(rr[1] - e_)
            dd[both_nan] = 0
            wrong = ~(dd <= 1e-11 + 1e-12 * np.abs(e_))
            if wrong.any():
                j = int(np.nonzero(wrong)[0][0])
                bad('not-elementwise', '%r at input %r (converted alone)' % (float(e_[j]), float(x[j])),
                    '%r when converted in the array %r' % (float(rr[1][j]), [float(q_) for q_ in x[:6]]), fn_name)
                stop = True
            if stop:
                break
    # inverse over the NIST inverse range
    ilo, ihi = INV_RANGE[letter]
    ig = ilo + (ihi - ilo) * (np.arange(npts) + phase) / npts
    ig = np.concatenate([[ilo], ig[ig < ihi], [ihi]])
    v = ref_forward(tab, ig)
    r = H.guarded(lambda: tc.mv_to_celsius(v))
    if r[0] != 'ok':
        bad('inverse-raised', 'values', repr(r), 'grid')
    else:
        got = np.asarray(r[1], dtype=np.float64)
        res['counters']['inverse_points'] += len(ig)
        nan = np.isnan(got)
        if nan.any():
            bad('inverse-nan', 'finite', 'NaN at V=%r (T=%r)' % (float(v[nan][0]), float(ig[nan][0])), 'grid')
        d = np.abs(got - ig)
        d[nan] = 0
        w = float(d.max())
        res['worst']['inverse'] = w
        allowed = inverse_bound(letter, v)
        if (d > allowed).any():
            j = int(np.argmax(d - allowed))
            w = float(d[j])
            bad('inverse-error', 'T=%r within %.4f C' % (float(ig[j]), float(allowed[j])), '%r (error %.4f C)' % (float(got[j]), w), 'grid')
    # ThermocoupleScaling: direction and microvolt convention, float32 and float64 input
    from nptdms.scaling import ThermocoupleScaling
    sub = ig[:: max(1, len(ig) // 2000)]
    for dt in (np.float64, np.float32):
        for direction in (0, 1):
            sc = ThermocoupleScaling(CODES[letter], direction, 0xFFFFFFFF)
            if direction == 1:
                x = sub.astype(dt)
                exp = 1000.0 * np.asarray(tc.celsius_to_mv(x), dtype=np.float64)
                ref = 1000.0 * ref_forward(tab, x.astype(np.float64))
                tol = 1e-5 if dt is np.float64 else 5e-3 * np.maximum(1.0, np.abs(ref)) * 1e-3 + 0.05
            else:
                uv = (1000.0 * ref_forward(tab, sub)).astype(dt)
                x = uv
                ref = sub
                tol = INV_BOUND[letter] + INV_SLACK + (0.0 if dt is np.float64 else 0.05)
            res['counters']['scaling_points'] += len(sub)
            # the input array belongs to the caller (inside a file it is the channel's raw data): it must not be written to
            x_before = x.copy()
            r = H.guarded(lambda: sc.scale(x))
            if not np.array_equal(x, x_before, equal_nan=True):
                bad('scaling-modifies-input', 'input unchanged', 'ThermocoupleScaling.scale wrote into its input (direction %d, %s)' % (direction, dt.__name__),
                    'dir%d %s' % (direction, dt.__name__))
                x = x_before
            if r[0] != 'ok':
                bad('scaling-raised', 'values', repr(r), 'dir%d %s' % (direction, dt.__name__))
                continue
            got = np.asarray(r[1], dtype=np.float64)
            if np.isnan(got).any():
                bad('scaling-nan', 'finite', 'NaN', 'dir%d %s' % (direction, dt.__name__))
                continue
            d = np.abs(got - ref)
            if (d > tol).any():
                j = int(np.argmax(d - tol))
                bad('scaling-convention', '%r' % float(ref[j]), '%r (input %r, direction %d, %s)' % (float(got[j]), float(x[j]), direction, dt.__name__),
                    'dir%d %s' % (direction, dt.__name__))
    res['samples'].append({'type': letter, 'range': [lo, hi], 'pieces': [(a, b) for a, b, _c, _e in tab], 'boundary_points': len(bpts),
                           'worst': res['worst']})
    return res


def through_file(item):
    """Thermocouple scale fed by a Linear scale 0 (the usual DAQmx layout), configured through NI_Scale properties and read
    through a real file: uV -> C and C -> uV for every type code"""
    import io
    import struct
    from .. import tdmsgen as G
    from .. import refscale as R
    letter, seed = item
    tab = table(letter)
    res = {'counters': {'file_points': 0}, 'violations': [], 'samples': [], 'worst': {}}
    ilo, ihi = INV_RANGE[letter]
    T = [ilo + (ihi - ilo) * k / 40.0 for k in range(41)]
    s, d, u = R._s, R._d, R._u
    for direction in (0, 1):
        for src_spelling in ('scale0', 'raw'):
            if direction == 0:
                # stored: volts; scale 0: x 1e6 -> microvolts; scale 1: thermocouple uV -> C
                raw = [float(v) * 1e-3 for v in ref_forward(tab, np.array(T))]
                slope, expect, tol = 1e6, T, INV_BOUND[letter] + INV_SLACK + 1e-6
            else:
                # stored: kelvin; scale 0: -273.15 -> C; scale 1: thermocouple C -> uV
                raw = [t + 273.15 for t in T]
                slope, expect, tol = 1.0, [1000.0 * float(v) for v in ref_forward(tab, np.array(T))], 1e-3
            if src_spelling == 'scale0':
                props = [u('NI_Number_Of_Scales', 2), s('NI_Scale[0]_Scale_Type', 'Linear'), d('NI_Scale[0]_Linear_Slope', slope),
                         d('NI_Scale[0]_Linear_Y_Intercept', -273.15 if direction else 0.0),
                         s('NI_Scale[1]_Scale_Type', 'Thermocouple'), u('NI_Scale[1]_Thermocouple_Thermocouple_Type', CODES[letter]),
                         u('NI_Scale[1]_Thermocouple_Scaling_Direction', direction), u('NI_Scale[1]_Thermocouple_Input_Source', 0)]
                vals = raw
            else:
                props = [u('NI_Number_Of_Scales', 1), s('NI_Scale[0]_Scale_Type', 'Thermocouple'),
                         u('NI_Scale[0]_Thermocouple_Thermocouple_Type', CODES[letter]),
                         u('NI_Scale[0]_Thermocouple_Scaling_Direction', direction), u('NI_Scale[0]_Thermocouple_Input_Source', 0xFFFFFFFF)]
                vals = [v * slope + (-273.15 if direction else 0.0) for v in raw]
            saved = G.POOLS['DoubleFloat']
            n = len(vals)
            pool = [struct.pack('<d', v) for v in vals]
            off = G._path_offset("/'g'/'a'")
            G.POOLS['DoubleFloat'] = pool[-off % n:] + pool[:-off % n]
            try:
                data = G.encode([G.seg([("/'g'/'a'", ['FULL', 'DoubleFloat', n], props)])], seed=0)[0]
            finally:
                G.POOLS['DoubleFloat'] = saved
            for lazy in (False, True):
                def read_twice():
                    tf = (H.TdmsFile.open if lazy else H.TdmsFile.read)(io.BytesIO(data))
                    try:
                        ch = tf['g']['a']
                        raw0 = np.array(ch.read_data(scaled=False), copy=True)
                        first = ch[:]
                        second = ch.read_data()
                        third = ch.read_data(0, len(ch))
                        if not (np.array_equal(first, second, equal_nan=True) and np.array_equal(first, third, equal_nan=True)):
                            raise AssertionError('repeated scaled reads of the same stored values differ')
                        if not np.array_equal(raw0, ch.read_data(scaled=False)):
                            raise AssertionError('stored raw values changed after scaling')
                        return third
                    finally:
                        if lazy:
                            tf.close()
                r = H.guarded(read_twice)
                res['counters']['file_points'] += n
                what = 'dir%d %s %s' % (direction, src_spelling, 'lazy' if lazy else 'eager')
                if r[0] != 'ok':
                    res['violations'].append({'case': {'type': letter, 'kind': 'file-chain', 'at': what}, 'expected': 'values', 'observed': repr(r),
                                              'signature': {'kind': 'file-chain-raised', 'type': letter, 'direction': direction, 'src': src_spelling}})
                    continue
                got = np.asarray(r[1], dtype=np.float64)
                dd = np.abs(got - np.array(expect))
                if len(got) != n or (dd > tol * np.maximum(1.0, np.abs(np.array(expect)) * (1e-9 if direction else 0))).any() and (dd > tol).any():
                    j = int(np.argmax(dd))
                    res['violations'].append({'case': {'type': letter, 'kind': 'file-chain', 'at': what}, 'expected': '%r' % expect[j],
                                              'observed': '%r (stored value %r)' % (float(got[j]), vals[j]),
                                              'signature': {'kind': 'file-chain-differs', 'type': letter, 'direction': direction, 'src': src_spelling}})
    # integer raw channels (what a DAQ card stores): the same microvolt numbers as int16 / uint16 / int32 must give the same
    # temperatures as when they are stored as doubles - over the whole range of the type that the thermocouple covers
    tc = module_for(letter)
    for t, fmt, lo_, hi_ in (('Int16', '<h', -32768, 32767), ('Uint16', '<H', 0, 65535), ('Int32', '<i', -2 ** 31, 2 ** 31 - 1)):
        uv_lo, uv_hi = 1000.0 * float(ref_forward(tab, np.array([ilo]))[0]), 1000.0 * float(ref_forward(tab, np.array([ihi]))[0])
        a, b = max(lo_, int(math.ceil(uv_lo))), min(hi_, int(math.floor(uv_hi)))
        if b - a < 10:
            continue
        vals = sorted(set([a, b, (a + b) // 2] + [a + (b - a) * k // 37 for k in range(38)] + [v for v in (32767, 32768, 32769, -1, 0, 1) if a <= v <= b]))
        props = [u('NI_Number_Of_Scales', 1), s('NI_Scale[0]_Scale_Type', 'Thermocouple'), u('NI_Scale[0]_Thermocouple_Thermocouple_Type', CODES[letter]),
                 u('NI_Scale[0]_Thermocouple_Scaling_Direction', 0), u('NI_Scale[0]_Thermocouple_Input_Source', 0xFFFFFFFF)]
        data = G.encode([G.seg([("/'g'/'a'", ['FULL', t, len(vals), [struct.pack(fmt, v).hex() for v in vals]], props)])], seed=0)[0]
        want = np.asarray(tc.mv_to_celsius(np.array(vals, dtype=np.float64) / 1000.0), dtype=np.float64)
        for lazy in (False, True):
            def read_int():
                tf = (H.TdmsFile.open if lazy else H.TdmsFile.read)(io.BytesIO(data))
                try:
                    return np.asarray(tf['g']['a'][:], dtype=np.float64)
                finally:
                    if lazy:
                        tf.close()
            r = H.guarded(read_int)
            res['counters']['file_points'] += len(vals)
            if r[0] != 'ok' or len(r[1]) != len(vals) or (np.abs(r[1] - want) > 1e-9).any():
                j = int(np.argmax(np.abs(r[1] - want))) if r[0] == 'ok' and len(r[1]) == len(vals) else 0
                res['violations'].append({'case': {'type': letter, 'kind': 'file-chain', 'at': 'raw %s %s' % (t, 'lazy' if lazy else 'eager')},
                                          'expected': '%r C for %d uV' % (float(want[j]), vals[j]),
                                          'observed': ('%r' % float(r[1][j])) if r[0] == 'ok' and len(r[1]) == len(vals) else repr(r)[:200],
                                          'signature': {'kind': 'integer-raw-differs', 'type': letter, 'direction': 0, 'src': t}})
    return res


def run(ctx):
    npts = 100000 if ctx.tier == 'quick' else 1000000
    rs = ctx.map(run_type, [(t, npts, ctx.seed) for t in TYPES])
    rf = ctx.map(through_file, [(t, ctx.seed) for t in TYPES])
    viol = [v for r in rs + rf for v in r['violations']]
    tot = {'file_points': sum(r['counters']['file_points'] for r in rf)}
    for r in rs:
        for k, v in r['counters'].items():
            tot[k] = tot.get(k, 0) + v
    ev = sum(tot.values())
    cov = {'evaluations': ev, 'distinct_nontrivial': tot['forward_points'] + tot['inverse_points'] + tot['boundary_points'],
           'rule': 'distinct (type, direction, point) evaluations on the uniform grid (phase rotated by VERIF_SEED) and at piece '
                   'boundaries with two float neighbours each side; all non-trivial',
           'points': tot, 'grid_points_per_type_and_direction': npts, 'samples': [r['samples'][0] for r in rs][:8], 'exhaustive': True,
           'vacuity_failures': [] if tot['forward_points'] >= 8 * npts else ['grid incomplete']}
    return cov, viol


def replay(case):
    if case.get('kind') == 'file-chain':
        r = through_file((case['type'], 0))
        for v in r['violations']:
            if v['case']['at'] == case['at']:
                return True, v['expected'], v['observed']
        return False, 'follows NIST', 'follows NIST'
    r = run_type((case['type'], 100000, 0))
    for v in r['violations']:
        if v['case']['kind'] == case['kind']:
            return True, v['expected'], v['observed']
    return False, 'follows NIST', 'follows NIST'
