"""C12 - Timestamps round-trip exactly and convert to datetime64 within one unit.  (exploration, exhaustive)

(a) ALL 10^6 microsecond values of the sub-second part x 5 second values (incl. pre-1904):
    TimeStamp(v).bytes -> TimeStamp.read -> as_datetime64() == v, and the same through
    TdmsWriter -> TdmsFile as channel data (all values) and as properties (a fixed subset);
(b) raw (seconds, fractions) pool x both byte orders through read, write and defragment, bit-exact;
(c) conversion to datetime64 at s/ms/us/ns for fractions around every unit boundary (all k for ms, all or a
    stated subset of k for us, a boundary set for ns): within one unit of the exact rational, monotone,
    scalar == array;
(d) time_track over length / offset / increment / start-time / accuracy pools.
"""
from fractions import Fraction
import io
import os
import struct

import numpy as np

from .. import harness as H
from .. import tdmsgen as G

ID = 'C12'
LEVEL = 'exploration'
TECHNIQUE = 'exhaustive enumeration of finite numeric domains (all 10^6 microsecond values x seconds; boundary-adjacent fractions for every unit) on the real conversion, writer and reader code, against exact rational arithmetic'
LEVEL_TEXT = ('The sub-second microsecond domain is finite (10^6 values) and is enumerated completely for 5 second values, through the '
              'type-level round trip and through a full TdmsWriter -> TdmsFile cycle; unit-boundary-adjacent raw fractions are '
              'enumerated for s/ms/us/ns and compared with exact rational arithmetic (fractions.Fraction); time_track is checked '
              'over small exhaustive pools (incl. start times outside datetime64[ns], lengths / increments that round badly, results '
              'modified by the caller). Also: six datetime64 input units, naive datetimes under three process time zones, every way '
              'of consulting the properties dictionary as first access, array-vs-scalar conversion of views in both orders.')
LEVEL_NOTE = ('Trusted: Python integer / Fraction arithmetic and NumPy datetime64 arithmetic. "One unit" carries an allowance of 2^-20 '
              'unit for float64 rounding in the conversion. Seconds are drawn from a 5-value pool (pre-1904, 0, 1, 2020, 2200).')
ASSUMPTIONS = ['ps resolution is outside the statement (s/ms/us/ns)']

EPOCH = np.datetime64('1904-01-01T00:00:00', 'us')
SECONDS = [-2000000000, 0, 1, 3660000000, 9340000000]   # 1840, 1904, 1904+1s, 2019/2020, 2200
UNITS = {'s': 1, 'ms': 10 ** 3, 'us': 10 ** 6, 'ns': 10 ** 9}
ALLOW = Fraction(1, 2 ** 20)


def part_a(item):
    """type-level and file-level round trip of every microsecond value in [lo, hi) for every second value"""
    from nptdms import types, TdmsWriter, ChannelObject, RootObject
    lo, hi, do_file = item
    res = {'counters': {'values': 0, 'file_values': 0, 'props': 0}, 'violations': [], 'bad_us': [], 'deltas': []}
    for sec in SECONDS:
        base = EPOCH + np.timedelta64(sec, 's')
        vals = base + np.arange(lo, hi).astype('timedelta64[us]')
        # (i) TimeStamp(value).bytes -> TimeStamp.read -> as_datetime64
        bad = []
        for j in range(hi - lo):
            v = vals[j]
            b = types.TimeStamp(v).bytes
            back = types.TimeStamp.read(io.BytesIO(b)).as_datetime64()
            res['counters']['values'] += 1
            if back != v or back.dtype != np.dtype('datetime64[us]'):
                bad.append((lo + j, str(back)))
                res['deltas'].append((lo + j, int((back - v) / np.timedelta64(1, 'us')) if back.dtype.kind == 'M' else None))
        for us, back in bad[:3]:
            res['violations'].append(_v('type-roundtrip', sec, us, back))
        res['bad_us'] += [us for us, _ in bad]
        if not do_file:
            continue
        # (ii) through the writer and the reader: all values as channel data, some as properties
        picks = sorted(set([0, hi - lo - 1] + list(range(0, hi - lo, 997))))
        props = {'p%d' % j: vals[j] for j in picks}

        def cycle():
            out = io.BytesIO()
            with TdmsWriter(out) as w:
                w.write_segment([RootObject(props), ChannelObject('g', 't', vals)])
            tf = H.TdmsFile.read(io.BytesIO(out.getvalue()))
            return tf['g']['t'][:], dict(tf.properties)
        r = H.guarded(cycle)
        if r[0] != 'ok':
            res['violations'].append({'case': {'part': 'a-file', 'sec': sec, 'lo': lo, 'hi': hi}, 'expected': 'written',
                                      'observed': repr(r), 'signature': {'kind': 'file-raised'}})
            continue
        data, rp = r[1]
        res['counters']['file_values'] += len(vals)
        if data.dtype != np.dtype('datetime64[us]') or len(data) != len(vals):
            res['violations'].append(_v('file-dtype', sec, lo, '%s n=%d' % (data.dtype, len(data))))
        else:
            wrong = np.nonzero(data != vals)[0]
            for j in wrong[:3]:
                res['violations'].append(_v('file-roundtrip', sec, lo + int(j), str(data[j])))
            res['bad_us'] += [lo + int(j) for j in wrong]
            res['deltas'] += [(lo + int(j), int((data[j] - vals[j]) / np.timedelta64(1, 'us'))) for j in wrong]
        for j in picks:
            res['counters']['props'] += 1
            got = rp.get('p%d' % j)
            if got != vals[j]:
                res['violations'].append(_v('prop-roundtrip', sec, lo + j, str(got)))
                res['bad_us'].append(lo + j)
                res['deltas'].append((lo + j, int((got - vals[j]) / np.timedelta64(1, 'us')) if isinstance(got, np.datetime64) else None))
    res['bad_us'] = sorted(set(res['bad_us']))
    return res


def _v(kind, sec, us, got):
    return {'case': {'part': 'a', 'sec': sec, 'us': us}, 'expected': 'identical datetime64[us]', 'observed': got,
            'signature': {'kind': kind if kind.endswith('dtype') else 'ts-us-roundtrip', 'us': us}}


# --- (b) raw timestamps -------------------------------------------------------------------

RAW = [(0, 0), (-1, 2 ** 64 - 1), (3600000000, 2 ** 63), (-2082844800, 1), (3786825600, 0x123456789ABCDEF0),
       (1, 18446744073709), (2 ** 62, 2 ** 64 - 2), (-2 ** 63, 0), (5, 2 ** 63 - 1), (5, 2 ** 63 + 1)]


def part_b(_item):
    from nptdms import TdmsWriter, ChannelObject, RootObject, GroupObject
    from nptdms.timestamp import TdmsTimestamp, TimestampArray
    res = {'counters': {'cases': 0}, 'violations': []}
    raw_le = [struct.pack('<Qq', f, s) for s, f in RAW]

    def bad(kind, exp, got):
        res['violations'].append({'case': {'part': 'b', 'kind': kind}, 'expected': exp, 'observed': got,
                                  'signature': {'kind': 'raw-' + kind}})
    # read: both byte orders, contiguous and interleaved, as data and as property (independent encoder)
    for big in (False, True):
        for il in (False, True):
            props = [['t%d' % i, 'TimeStamp', v.hex()] for i, v in enumerate(raw_le)]
            h = [G.seg([('/', ['NODATA'], props), ("/'g'/'t'", ['FULL', 'TimeStamp', 5]), ("/'g'/'x'", ['FULL', 'Int8', 5])],
                       chunks=2, big=big, interleaved=il)]
            # values dealt by the encoder come from its own pool; also force ours through the properties
            data, _i, _l, ref = G.encode(h)
            r = H.guarded(lambda: H.TdmsFile.read(io.BytesIO(data), raw_timestamps=True))
            res['counters']['cases'] += 1
            if r[0] != 'ok':
                bad('read-raised', 'ok', repr(r))
                continue
            tf = r[1]
            got = H.norm_array(tf['g']['t'][:])
            if got != ('ts', 10, b''.join(ref.values["/'g'/'t'"])):
                bad('read-data', 'bit-exact raw timestamps (big=%s il=%s)' % (big, il), got[2][:32].hex())
            for i, (s, f) in enumerate(RAW):
                p = tf.properties['t%d' % i]
                if (int(p.seconds), int(p.second_fractions)) != (s, f):
                    bad('read-prop', (s, f), (int(p.seconds), int(p.second_fractions)))
            # the same file lazily, element by element and chunk by chunk (raw), and in the default datetime64 mode
            exp_raw = b''.join(ref.values["/'g'/'t'"])
            res['counters']['cases'] += 1

            def lazy_raw():
                lz = H.TdmsFile.open(io.BytesIO(data), raw_timestamps=True)
                try:
                    ch = lz['g']['t']
                    a1 = b''.join(H.norm_scalar(ch[i])[1] for i in range(len(ch)))
                    a2 = b''.join(H.norm_array(c[:])[2] for c in ch.data_chunks())
                    a3 = b''.join(H.norm_array(dc['g']['t'][:])[2] for dc in lz.data_chunks())
                    return a1, a2, a3
                finally:
                    lz.close()
            rr = H.guarded(lazy_raw)
            if rr[0] != 'ok' or any(x != exp_raw for x in rr[1]):
                bad('read-data-lazy', 'bit-exact raw timestamps through index / chunk streams (big=%s il=%s)' % (big, il), repr(rr)[:200])
            # ... and defragmented: the copy holds the same raw timestamps, as data and as properties
            res['counters']['cases'] += 1

            def defrag():
                out2 = io.BytesIO()
                TdmsWriter.defragment(io.BytesIO(data), out2)
                t2 = H.TdmsFile.read(io.BytesIO(out2.getvalue()), raw_timestamps=True)
                return H.norm_array(t2['g']['t'][:]), [(int(t2.properties['t%d' % i].seconds), int(t2.properties['t%d' % i].second_fractions))
                                                      for i in range(len(RAW))]
            rd2 = H.guarded(defrag)
            if rd2[0] != 'ok' or rd2[1][0] != ('ts', 10, exp_raw) or rd2[1][1] != [tuple(x) for x in RAW]:
                bad('defragment-source', 'bit-exact raw timestamps after defragmenting a generated file (big=%s il=%s)' % (big, il), repr(rd2)[:200])
            pairs = np.frombuffer(exp_raw, dtype=[('f', '<u8'), ('s', '<i8')])
            # (properties outside the datetime64[us] range cannot be converted at all: the default-mode file leaves them out)
            h2 = [G.seg([(o_['path'], o_['enc'], [p_ for p_ in o_['props'] if abs(struct.unpack('<Qq', bytes.fromhex(p_[2]))[1]) < 9 * 10 ** 12])
                         for o_ in h[0]['objects']], chunks=2, big=big, interleaved=il)]
            data2 = G.encode(h2)[0]
            for lz_ in (False, True):
                res['counters']['cases'] += 1
                rd = H.guarded(lambda: (H.TdmsFile.open if lz_ else H.TdmsFile.read)(io.BytesIO(data2))['g']['t'][:])
                if rd[0] != 'ok' or rd[1].dtype != np.dtype('datetime64[us]') or len(rd[1]) != len(pairs):
                    bad('read-default', 'datetime64[us] array (big=%s il=%s lazy=%s)' % (big, il, lz_), repr(rd)[:200])
                    continue
                ints = rd[1].astype('int64')
                ep = int(np.datetime64('1904-01-01T00:00:00', 'us').astype('int64'))
                for j in range(len(pairs)):
                    sec, fr = int(pairs['s'][j]), int(pairs['f'][j])
                    if abs(sec) > 9 * 10 ** 12:
                        continue   # outside datetime64[us]
                    exact = Fraction(sec * 10 ** 6) + Fraction(fr * 10 ** 6, 2 ** 64)
                    if abs((int(ints[j]) - ep) - exact) > 1 + ALLOW:
                        bad('read-default', 'within 1 us of %s' % float(exact), int(ints[j]) - ep)
                        break
    # write: TdmsTimestamp property and TimestampArray data, then defragment, all bit-exact
    arr = TimestampArray(np.array([(f, s) for s, f in RAW], dtype=[('second_fractions', '<u8'), ('seconds', '<i8')]))

    def cycle():
        out = io.BytesIO()
        with TdmsWriter(out) as w:
            w.write_segment([RootObject({'t%d' % i: TdmsTimestamp(s, f) for i, (s, f) in enumerate(RAW)}),
                             ChannelObject('g', 't', arr, {'c': TdmsTimestamp(*RAW[1])})])
            w.write_segment([ChannelObject('g', 't', arr[::-1])])
        first = out.getvalue()
        out2 = io.BytesIO()
        TdmsWriter.defragment(io.BytesIO(first), out2)
        return first, out2.getvalue()
    r = H.guarded(cycle)
    res['counters']['cases'] += 1
    if r[0] != 'ok':
        bad('write-raised', 'ok', repr(r))
        return res
    exp_data = b''.join(raw_le) + b''.join(raw_le[::-1])
    for name, blob in zip(('written', 'defragmented'), r[1]):
        rr = H.guarded(lambda: H.TdmsFile.read(io.BytesIO(blob), raw_timestamps=True))
        res['counters']['cases'] += 1
        if rr[0] != 'ok':
            bad('reread-raised', name, repr(rr))
            continue
        tf = rr[1]
        got = H.norm_array(tf['g']['t'][:])
        if got != ('ts', 2 * len(RAW), exp_data):
            bad('write-data', name + ': bit-exact', got[2][:32].hex())
        for i, (s, f) in enumerate(RAW):
            p = tf.properties['t%d' % i]
            if (int(p.seconds), int(p.second_fractions)) != (s, f):
                bad('write-prop', (name, s, f), (int(p.seconds), int(p.second_fractions)))
        p = tf['g']['t'].properties['c']
        if (int(p.seconds), int(p.second_fractions)) != RAW[1]:
            bad('write-prop', (name,) + RAW[1], (int(p.seconds), int(p.second_fractions)))
    # array conversion of a window / slice of raw timestamps == scalar conversions of its items, whatever was converted before
    # (whole array first, then the window; and the other way round on a fresh array)
    h = [G.seg([("/'g'/'t'", ['FULL', 'TimeStamp', 5]), ("/'g'/'x'", ['FULL', 'Int8', 5])], chunks=2)]
    data = G.encode(h)[0]
    for order in ('whole-first', 'window-first'):
        for unit in ('s', 'ms', 'us', 'ns'):
            def views():
                tf = H.TdmsFile.read(io.BytesIO(data), raw_timestamps=True)
                ch = tf['g']['t']
                arr = ch[:]
                out = []
                seq = [('whole', lambda: arr), ('slice', lambda: arr[2:5]), ('channel-slice', lambda: ch[3:9]),
                       ('window', lambda: ch.read_data(4, 3)), ('strided', lambda: arr[::3])]
                if order == 'window-first':
                    seq = seq[1:] + seq[:1]
                for name, get in seq:
                    a = get()
                    conv = a.as_datetime64(unit)
                    items = [a[i].as_datetime64(unit) for i in range(len(a))]
                    out.append((name, len(a), [int(v.astype('int64')) for v in conv], [int(v.astype('int64')) for v in items]))
                return out
            r = H.guarded(views)
            res['counters']['cases'] += 1
            if r[0] != 'ok':
                if 'Overflow' in r[1]:
                    continue    # a pool value outside this unit's range: nothing to compare
                bad('view-raised', 'conversions of views', repr(r)[:200])
                continue
            for name, n, conv, items in r[1]:
                if len(conv) != n or conv != items:
                    bad('view-conversion', '%s (%s, %s): array conversion == scalar conversions of its %d items' % (name, unit, order, n),
                        'array gives %d values %s, items give %s' % (len(conv), conv[:3], items[:3]))
                    break
    # a datetime property reads back as datetime64[us] through every way of consulting the properties dictionary of the file,
    # group and channel objects, whichever is used first (read, open, read_metadata)
    when = [np.datetime64('2021-03-04T05:06:07.250000', 'us'), np.datetime64('1899-12-31T23:59:59.500000', 'us')]
    out = io.BytesIO()
    with TdmsWriter(out) as w:
        w.write_segment([RootObject({'t0': when[0], 't1': when[1]}), GroupObject('g', {'t0': when[0], 't1': when[1]}),
                         ChannelObject('g', 'c', np.arange(3, dtype=np.int32), {'t0': when[0], 't1': when[1]})])
    pdata = out.getvalue()
    accessors = [('[]', lambda p, k: p[k]), ('get', lambda p, k: p.get(k)), ('items', lambda p, k: dict(p.items())[k]),
                 ('values', lambda p, k: list(p.values())[list(p.keys()).index(k)]), ('dict', lambda p, k: dict(p)[k]),
                 ('copy', lambda p, k: p.copy()[k] if hasattr(p, 'copy') else p[k])]
    for how in ('read', 'open', 'read_metadata'):
        for first, acc in accessors:
            def look():
                tf = getattr(H.TdmsFile, how)(io.BytesIO(pdata))
                try:
                    got = []
                    for obj in (tf, tf['g'], tf['g']['c']):
                        for k in ('t0', 't1'):
                            got.append(acc(obj.properties, k))
                    return got
                finally:
                    if how == 'open':
                        tf.close()
            r = H.guarded(look)
            res['counters']['cases'] += 1
            if r[0] != 'ok':
                bad('prop-access-raised', 'property access through %s after TdmsFile.%s' % (first, how), repr(r)[:200])
                continue
            for j, g in enumerate(r[1]):
                if not (isinstance(g, np.datetime64) and g.dtype == np.dtype('datetime64[us]') and g == when[j % 2]):
                    bad('prop-access', 'datetime64[us] %s through %s as first access after TdmsFile.%s' % (when[j % 2], first, how),
                        '%r (%s)' % (g, type(g).__name__))
                    break
    # a naive datetime.datetime names the same instant whatever the local time zone of the process is
    import datetime
    import time
    old_tz = os.environ.get('TZ')
    naive = [datetime.datetime(2021, 6, 1, 12, 30, 15, 500000), datetime.datetime(1903, 1, 2, 3, 4, 5), datetime.datetime(1970, 1, 1, 0, 0, 0)]
    for tz in ('JST-9', 'EST5EDT', 'UTC'):
        os.environ['TZ'] = tz
        time.tzset()
        try:
            def tz_cycle():
                out = io.BytesIO()
                with TdmsWriter(out) as w:
                    w.write_segment([RootObject({'p%d' % i: v for i, v in enumerate(naive)}), ChannelObject('g', 't', list(naive))])
                tf = H.TdmsFile.read(io.BytesIO(out.getvalue()))
                return [tf.properties['p%d' % i] for i in range(len(naive))], tf['g']['t'][:]
            r = H.guarded(tz_cycle)
        finally:
            if old_tz is None:
                os.environ.pop('TZ', None)
            else:
                os.environ['TZ'] = old_tz
            time.tzset()
        res['counters']['cases'] += 1
        want = [np.datetime64(v, 'us') for v in naive]
        if r[0] != 'ok':
            bad('tz-raised', 'naive datetimes written under TZ=%s' % tz, repr(r)[:200])
        elif list(r[1][0]) != want or list(r[1][1]) != want:
            bad('tz-shift', 'naive datetimes read back unchanged under TZ=%s: %s' % (tz, want[0]), '%s / %s' % (r[1][0][0], r[1][1][0]))
    # datetimes handed to the writer in other datetime64 units (pandas: [ns]) denote the same instants
    for unit in ('ns', 'ms', 's', 'm', 'h', 'D'):
        sub = [0, 500000] if unit in ('ns', 'ms') else [0]
        step = {'m': 60, 'h': 3600, 'D': 86400}.get(unit, 1)
        us_vals = [EPOCH + np.timedelta64((sec // step) * step, 's') + np.timedelta64(u, 'us') for sec in SECONDS[:4] for u in sub]
        vals = np.array(us_vals, dtype='datetime64[us]').astype('datetime64[%s]' % unit)

        def unit_cycle():
            out = io.BytesIO()
            with TdmsWriter(out) as w:
                w.write_segment([RootObject({'p%d' % i: v for i, v in enumerate(vals)}), ChannelObject('g', 't', vals)])
            tf = H.TdmsFile.read(io.BytesIO(out.getvalue()))
            return tf['g']['t'][:], [tf.properties['p%d' % i] for i in range(len(vals))]
        r = H.guarded(unit_cycle)
        res['counters']['cases'] += 1
        want = np.array(us_vals, dtype='datetime64[us]')
        if r[0] != 'ok':
            bad('unit-raised', 'datetime64[%s] input written' % unit, repr(r)[:200])
        elif r[1][0].dtype != np.dtype('datetime64[us]') or not np.array_equal(r[1][0], want):
            bad('unit-data', 'datetime64[%s] channel data read back as the same instants %s' % (unit, want[:2]), str(r[1][0][:2]))
        elif any(g != w_ for g, w_ in zip(r[1][1], want)):
            bad('unit-prop', 'datetime64[%s] properties read back as the same instants' % unit, str(r[1][1][:2]))
    return res


# --- (c) conversion -----------------------------------------------------------------------

def boundary_fractions(unit, ks):
    U = UNITS[unit]
    out = set([0, 1, 2 ** 63, 2 ** 64 - 1, 2 ** 63 - 1, 2 ** 63 + 1])
    for k in ks:
        c = -((-k * 2 ** 64) // U)
        for d in (-2, -1, 0, 1, 2):
            if 0 <= c + d < 2 ** 64:
                out.add(c + d)
    return sorted(out)


def part_c(item):
    from nptdms.timestamp import TdmsTimestamp, TimestampArray
    unit, klo, khi, scalar_every = item
    U = UNITS[unit]
    res = {'counters': {'conversions': 0, 'scalar': 0}, 'violations': []}
    fr = boundary_fractions(unit, range(klo, khi))
    farr = np.array(fr, dtype=np.uint64)

    def bad(kind, sec, f, exp, got):
        if len(res['violations']) < 10:
            res['violations'].append({'case': {'part': 'c', 'unit': unit, 'sec': sec, 'fractions': f}, 'expected': exp,
                                      'observed': got, 'signature': {'kind': 'conv-' + kind, 'unit': unit}})
    for sec in SECONDS:
        if unit == 'ns' and not (-9000000000 < sec - 2082844800 < 9000000000):
            continue
        a = np.empty(len(fr), dtype=[('second_fractions', '<u8'), ('seconds', '<i8')])
        a['second_fractions'] = farr
        a['seconds'] = sec
        r = H.guarded(lambda: TimestampArray(a).as_datetime64(unit))
        if r[0] != 'ok':
            bad('raised', sec, None, 'ok', repr(r))
            continue
        out = r[1]
        res['counters']['conversions'] += len(fr)
        if out.dtype != np.dtype('datetime64[%s]' % unit):
            bad('dtype', sec, None, 'datetime64[%s]' % unit, str(out.dtype))
            continue
        ints = out.astype('int64')
        epoch_int = int(np.datetime64('1904-01-01T00:00:00', unit).astype('int64'))
        prev = None
        for j, f in enumerate(fr):
            R = int(ints[j]) - epoch_int
            exact = Fraction(sec * U) + Fraction(f * U, 2 ** 64)
            if abs(R - exact) > 1 + ALLOW:
                bad('off-by-more-than-one-unit', sec, f, str(float(exact)), R)
            if prev is not None and R < prev:
                bad('not-monotone', sec, f, '>= %d' % prev, R)
            prev = R
            if j % scalar_every == 0:
                res['counters']['scalar'] += 1
                rs = H.guarded(lambda: TdmsTimestamp(sec, f).as_datetime64(unit))
                if rs[0] != 'ok' or rs[1] != out[j] or rs[1].dtype != out.dtype:
                    bad('scalar-vs-array', sec, f, str(out[j]), repr(rs))
    return res


# --- (d) time_track -----------------------------------------------------------------------

def part_d(_item):
    res = {'counters': {'cases': 0}, 'violations': []}
    lens = [0, 1, 2, 3, 5, 6]
    offs = [0.0, 0.25, -1.5, 2.5]
    incs = [1.0, 0.001, 2.5e-7, 3.0, 0.1]
    # start times incl. years ~2500 and ~1600: outside datetime64[ns], inside every coarser unit
    starts = [(3660000000, 0), (3660000000, 2 ** 63), (-5, 2 ** 62), (0, 0), (18800000000, 2 ** 62), (-9590000000, 2 ** 61)]
    combos = [(n, off, inc, st) for n in lens for off in offs for inc in incs for st in starts]
    combos += [(33, 2.5, 0.1, starts[0]), (7, 2.5, 0.1, starts[1]), (1000, 0.0, 1e-6, starts[0]), (1000, 0.25, 0.1, starts[3])]
    for n, off, inc, st in combos:
        if True:
            if True:
                if True:
                    for raw in (False, True):
                        props = [['wf_start_offset', 'DoubleFloat', struct.pack('<d', off).hex()],
                                 ['wf_increment', 'DoubleFloat', struct.pack('<d', inc).hex()],
                                 ['wf_start_time', 'TimeStamp', struct.pack('<Qq', st[1], st[0]).hex()]]
                        h = [G.seg([("/'g'/'w'", ['FULL', 'Int16', n], props)])]
                        data = G.encode(h)[0]
                        tf = H.TdmsFile.read(io.BytesIO(data), raw_timestamps=raw)
                        ch = tf['g']['w']
                        r = H.guarded(ch.time_track)
                        res['counters']['cases'] += 1

                        def bad(kind, exp, got):
                            if len(res['violations']) < 10:
                                res['violations'].append({'case': {'part': 'd', 'n': n, 'off': off, 'inc': inc, 'start': st, 'raw': raw},
                                                          'expected': exp, 'observed': got, 'signature': {'kind': 'time-track-' + kind}})
                        if r[0] != 'ok':
                            bad('raised', 'array', repr(r))
                            continue
                        tt = r[1]
                        if len(tt) != n:
                            bad('length', n, len(tt))
                            continue
                        for i in range(n):
                            e = off + i * inc
                            if abs(tt[i] - e) > 1e-12 * max(1.0, abs(e)):
                                bad('relative', e, float(tt[i]))
                                break
                        # the array handed out belongs to the caller: changing it must not change what the next call returns
                        tt *= 1000.0
                        tt += 7.0
                        r3 = H.guarded(ch.time_track)
                        res['counters']['cases'] += 1
                        if r3[0] != 'ok' or len(r3[1]) != n or any(abs(r3[1][i] - (off + i * inc)) > 1e-12 * max(1.0, abs(off + i * inc)) for i in range(n)):
                            bad('not-repeatable', 'the same track again after the caller modified the first one', repr(r3)[:120])
                            continue
                        for acc in ('s', 'ms', 'us', 'ns'):
                            if acc == 'ns' and abs(st[0]) > 9 * 10 ** 9:
                                continue     # not representable at this resolution
                            ra = H.guarded(ch.time_track, True, acc)
                            res['counters']['cases'] += 1
                            if ra[0] != 'ok':
                                bad('abs-raised', 'array', repr(ra))
                                continue
                            ta = ra[1]
                            if len(ta) != n:
                                bad('abs-length', n, len(ta))
                                continue
                            if n and ta.dtype.kind != 'M':
                                bad('abs-dtype', 'datetime64', str(ta.dtype))
                                continue
                            if not n:
                                continue
                            # the statement fixes the values, not the unit of the returned dtype
                            ru = np.datetime_data(ta.dtype)[0]
                            RU = UNITS[ru]
                            epoch_int = int(np.datetime64('1904-01-01T00:00:00', ru).astype('int64'))
                            tol = Fraction(2, UNITS[acc]) + (Fraction(1, 10 ** 6) if not raw else 0) + ALLOW / UNITS[acc]
                            for i in range(n):
                                exact = Fraction(st[0]) + Fraction(st[1], 2 ** 64) + Fraction(off + i * inc)
                                R = Fraction(int(ta[i].astype('int64')) - epoch_int, RU)
                                if abs(R - exact) > tol:
                                    bad('absolute', str(float(exact)), str(float(R)))
                                    break
                            # ... and sharper, relative to the start time as the library itself reports it: point i lies
                            # (off + i*inc) expressed at the requested accuracy after it - truncated or rounded, so strictly less
                            # than one unit away (a sum of separately truncated parts can be a whole unit off)
                            sp = ch.properties['wf_start_time']
                            sdt = sp.as_datetime64(acc) if raw else sp
                            U = UNITS[acc]
                            for i in range(n):
                                td = ta[i] - sdt
                                tu = UNITS[np.datetime_data(td.dtype)[0]]
                                d = Fraction(int(td.astype('int64')), tu)
                                e = Fraction(off + i * inc)
                                if abs(d - e) > Fraction(1, U) * (1 + Fraction(1, 10 ** 6)) + abs(e) / 10 ** 12:
                                    bad('absolute-offset', 'start + %s s at accuracy %s' % (float(e), acc), 'start + %s s (point %d)' % (float(d), i))
                                    break
    return res


def run(ctx):
    from ..run import merge
    step = 12500
    file_every = 1 if ctx.tier == 'thorough' else 4
    items_a = [(lo, lo + step, (i % file_every) == 0) for i, lo in enumerate(range(0, 10 ** 6, step))]
    ra = ctx.map(part_a, items_a)
    bad_us = sorted(set(u for r in ra for u in r['bad_us']))
    ma = merge(ra)
    mb = merge(ctx.map(part_b, [0]))
    items_c = [('s', 0, 1, 1), ('ms', 0, 1000, 1)]
    if ctx.tier == 'thorough':
        items_c += [('us', lo, lo + 25000, 50) for lo in range(0, 10 ** 6, 25000)]
    else:
        items_c += [('us', 0, 1000, 10), ('us', 499000, 501000, 10), ('us', 999000, 1000000, 10)]
    items_c += [('ns', 0, 2000, 20), ('ns', 499999000, 500001000, 20), ('ns', 999998000, 1000000000, 20)]
    mc = merge(ctx.map(part_c, items_c))
    md = merge(ctx.map(part_d, [0]))
    viol = ma['violations'] + mb['violations'] + mc['violations'] + md['violations']
    # the microsecond round trip: failing values are classified against the committed list of the known finding
    if bad_us:
        import json, os
        deltas = {}
        for r in ra:
            for us, d in r['deltas']:
                deltas.setdefault(us, set()).add(d)
        try:
            with open(os.path.join(os.path.dirname(__file__), '..', '..', 'known', 'c12_us_one_early.json')) as f:
                known_list = set(json.load(f)['microseconds'])
        except Exception:
            known_list = set()
        viol = [v for v in viol if v['signature'].get('kind') != 'ts-us-roundtrip']
        inside = [u for u in bad_us if u in known_list and deltas.get(u) == {-1}]
        outside = [u for u in bad_us if not (u in known_list and deltas.get(u) == {-1})]
        if inside:
            viol.append({'case': {'part': 'a', 'us_values': inside[:50], 'count': len(inside), 'us': inside[0], 'sec': 0},
                         'expected': 'identical datetime64[us] for all 10^6 microsecond values',
                         'observed': '%d microsecond values read back exactly 1 us early, first %r' % (len(inside), inside[:8]),
                         'signature': {'kind': 'ts-us-roundtrip', 'delta_us': -1, 'within_committed_list': True}})
        for u in outside[:5]:
            viol.append({'case': {'part': 'a', 'us_values': [u], 'us': u, 'sec': 0},
                         'expected': 'identical datetime64[us]', 'observed': 'microsecond value %d read back with delta %r us'
                         % (u, sorted(deltas.get(u, []), key=str)),
                         'signature': {'kind': 'ts-us-roundtrip', 'within_committed_list': False, 'us': u}})
    ev = (ma['counters']['values'] + ma['counters']['file_values'] + ma['counters']['props'] + mb['counters']['cases'] +
          mc['counters']['conversions'] + mc['counters']['scalar'] + md['counters']['cases'])
    cov = {'evaluations': ev, 'distinct_nontrivial': ma['counters']['values'] + mc['counters']['conversions'],
           'rule': 'distinct (seconds, microsecond) values round-tripped + distinct (seconds, fractions, unit) conversions; all are '
                   'non-trivial (sub-second part present) except k=0',
           'type_roundtrips': ma['counters']['values'], 'file_roundtrip_values': ma['counters']['file_values'],
           'property_roundtrips': ma['counters']['props'], 'raw_cases': mb['counters']['cases'],
           'conversions': mc['counters']['conversions'], 'scalar_vs_array': mc['counters']['scalar'],
           'time_track_cases': md['counters']['cases'], 'microseconds_failing': len(bad_us),
           'samples': [{'sec': SECONDS[0], 'us': 16}, {'unit': 'us', 'fractions': boundary_fractions('us', [7])}],
           'exhaustive': True,
           'vacuity_failures': [] if ma['counters']['values'] == 5 * 10 ** 6 else ['microsecond domain not fully enumerated']}
    return cov, viol


def replay(case):
    from nptdms import types
    from nptdms.timestamp import TdmsTimestamp
    if case.get('part') == 'a':
        base = EPOCH + np.timedelta64(case['sec'], 's')
        for us in case.get('us_values', [case['us']]):
            v = base + np.timedelta64(us, 'us')
            back = types.TimeStamp.read(io.BytesIO(types.TimeStamp(v).bytes)).as_datetime64()
            if back != v:
                return True, str(v), str(back)
        return False, 'identical', 'identical'
    if case.get('part') == 'c':
        r = part_c((case['unit'], 0, 1, 1))
        sec, f, unit = case['sec'], case['fractions'], case['unit']
        if f is None:
            return bool(r['violations']), 'ok', 'see run'
        U = UNITS[unit]
        got = TdmsTimestamp(sec, f).as_datetime64(unit)
        R = int(got.astype('int64')) - int(np.datetime64('1904-01-01T00:00:00', unit).astype('int64'))
        exact = Fraction(sec * U) + Fraction(f * U, 2 ** 64)
        return abs(R - exact) > 1 + ALLOW, str(float(exact)), R
    if case.get('part') == 'b':
        r = part_b(0)
        return bool(r['violations']), 'bit-exact', r['violations'][0]['observed'] if r['violations'] else 'ok'
    r = part_d(0)
    return bool(r['violations']), 'time track', r['violations'][0]['observed'] if r['violations'] else 'ok'
