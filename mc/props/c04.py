"""C04 - Windows, slices and indices mean what they mean on the full array.  (exploration)

For every file of family F4 (channel with data / no data / absent per segment, 1-3 values x 1-3 chunks,
contiguous / interleaved / string / timestamp / DAQmx, optional truncated final chunk) EVERY window
(offset, length), EVERY slice (start, stop, step) and EVERY integer index in the stated ranges is
executed on the real code, lazily and eagerly, and compared with NumPy indexing of the full array.
"""
import io
import struct

import numpy as np

from .. import tdmsgen as G
from .. import harness as H
from .. import families as F

ID = 'C04'
LEVEL = 'exploration'
TECHNIQUE = 'bounded-exhaustive enumeration: all windows/slices/indices x all files of a finite family, on the real code, vs NumPy indexing of the full array'
LEVEL_TEXT = ('For each file of a finite family chosen around segment/chunk boundaries (incl. segments where the channel is '
              'absent or has no data, and truncated final chunks) all (offset,length), all slices with start/stop in '
              '[-L-2,L+2]|None and step in {None,+-1,+-2,+-3,0}, and all integers in [-L-2,L+1] are executed in lazy and eager '
              'mode; the oracle is NumPy indexing of the full array. Added families: timestamp files with raw_timestamps=True; '
              'memmap_dir variants; segments complete by their own offsets whose data stops inside the last chunk in non-final position '
              '(contiguous, interleaved, DAQmx, slow-before-fast channels); running totals coinciding with multiples (all (a,b,c) in 1..4); '
              'long channels (70 000 values; 2.4 MB segments with numbered values) probed on a grid of stepped slices and around every '
              'power of two up to 2^18; the error cases inside with-blocks.')
LEVEL_NOTE = ('Trusted: NumPy indexing semantics and the full eager read as base (tied to the reference model by C01/C02 and '
              're-checked here against it). Bounds of the exhaustive part: <=3 segments (4 with one gap in thorough), <=4 values x <=3 '
              'chunks per segment; the long-channel part is a grid, not exhaustive.')
ASSUMPTIONS = ['dtype of empty results is not judged here (C14)', 'negative offsets/lengths are outside the statement']

STEPS = (None, 1, 2, 3, -1, -2, -3)


def eq(got, exp):
    if isinstance(exp, dict) or isinstance(got, dict):
        if not (isinstance(exp, dict) and isinstance(got, dict)) or sorted(got) != sorted(exp):
            return False
        return all(eq(got[k], exp[k]) for k in exp)
    g, e = H.norm_array(got), H.norm_array(exp)
    if g[1] != e[1] or g[2] != e[2]:
        return False
    return e[1] == 0 or g[0] == e[0]


def show(x):
    if isinstance(x, dict):
        return {k: show(v) for k, v in x.items()}
    n = H.norm_array(x)
    return '%s n=%d %s' % (n[0], n[1], H._short(n[2]))


def window(base, off, ln):
    if isinstance(base, dict):
        return {k: window(v, off, ln) for k, v in base.items()}
    return base[off:] if ln is None else base[off:off + ln]


_MM = []


def _memmap_dir():
    if not _MM:
        _MM.append(H.scratch('verif_c04mm_'))
    return _MM[0]


def check_file(data, path, raw_timestamps=False, max_bad=3, memmap=False):
    """-> (n_ops, L, list of (opkind, mode, op, expected, observed))"""
    comps = H._components(path)
    bad = []
    nops = 0
    mm = _memmap_dir() if memmap else None
    r = H.guarded(lambda: H.TdmsFile.read(io.BytesIO(data), raw_timestamps=raw_timestamps, memmap_dir=mm))
    if r[0] != 'ok':
        return 0, -1, [('open', 'eager', 'TdmsFile.read', 'no error', 'raised %s: %s' % (r[1], r[2]))]
    eager = r[1]
    ech = eager[comps[0]][comps[1]]
    r = H.guarded(lambda: (ech[:], ech.read_data(scaled=False)))
    if r[0] != 'ok':
        return 0, -1, [('full', 'eager', 'channel[:]', 'no error', 'raised %s: %s' % (r[1], r[2]))]
    base, base_raw = r[1]
    L = len(base)
    if len(ech) != L:
        bad.append(('len', 'eager', 'len(channel)', L, len(ech)))
    r = H.guarded(lambda: H.TdmsFile.open(io.BytesIO(data), raw_timestamps=raw_timestamps, memmap_dir=mm))
    if r[0] != 'ok':
        return 0, L, [('open', 'lazy', 'TdmsFile.open', 'no error', 'raised %s: %s' % (r[1], r[2]))]
    lazy = r[1]
    lch = lazy[comps[0]][comps[1]]
    rng = [None] + list(range(-L - 2, L + 3))
    try:
        for mode, ch in (('lazy', lch), ('eager', ech)):
            nbad = {}

            def report(kind, op, exp, got):
                nbad[kind] = nbad.get(kind, 0) + 1
                if nbad[kind] <= max_bad:
                    bad.append((kind, mode, op, exp, got))
            # windows
            for off in range(0, L + 3):
                for ln in [None] + list(range(0, L + 3)):
                    for scaled in (True, False):
                        nops += 1
                        exp = window(base if scaled else base_raw, off, ln)
                        r = H.guarded(ch.read_data, off, ln, scaled)
                        if r[0] != 'ok':
                            report('window-raised', ['read_data', off, ln, scaled], show(exp), 'raised %s: %s' % (r[1], r[2]))
                        elif not eq(r[1], exp):
                            report('window-mismatch', ['read_data', off, ln, scaled], show(exp), show(r[1]))
            # slices
            for start in rng:
                for stop in rng:
                    for step in STEPS:
                        nops += 1
                        exp = base[start:stop:step]
                        r = H.guarded(ch.__getitem__, slice(start, stop, step))
                        if r[0] != 'ok':
                            report('slice-raised', ['slice', start, stop, step], show(exp), 'raised %s: %s' % (r[1], r[2]))
                        elif not eq(r[1], exp):
                            report('slice-mismatch', ['slice', start, stop, step], show(exp), show(r[1]))
            nops += 1
            r = H.guarded(ch.__getitem__, slice(None, None, 0))
            if not (r[0] == 'raised' and r[1] == 'ValueError'):
                report('step0', ['slice', None, None, 0], 'ValueError', repr(r[:2]))
            # integers
            for i in range(-L - 2, L + 2):
                nops += 1
                r = H.guarded(ch.__getitem__, i)
                if -L <= i < L:
                    if r[0] != 'ok':
                        report('index-raised', ['index', i], 'value', 'raised %s: %s' % (r[1], r[2]))
                    elif H.norm_scalar(r[1]) != H.norm_scalar(base[i]):
                        report('index-mismatch', ['index', i], repr(H.norm_scalar(base[i])), repr(H.norm_scalar(r[1])))
                elif not (r[0] == 'raised' and r[1] == 'IndexError'):
                    report('index-bounds', ['index', i], 'IndexError', repr(r[:2]))
    finally:
        lazy.close()
    # the errors must reach the caller also when the file is used as a context manager (and from TdmsFile.read as well)
    for mode, opener in (('lazy', H.TdmsFile.open), ('eager', H.TdmsFile.read)):
        for what, fn, exc in (('index', lambda c: c[L], 'IndexError'), ('index', lambda c: c[-L - 1], 'IndexError'),
                              ('step0', lambda c: c[::0], 'ValueError')):
            nops += 1
            try:
                with opener(io.BytesIO(data), raw_timestamps=raw_timestamps) as tf2:
                    fn(tf2[comps[0]][comps[1]])
                got = 'no exception left the with-block'
            except Exception as e:  # noqa
                got = type(e).__name__
            if got != exc:
                bad.append((what + '-in-with-block', mode, ['with-block', what], exc, got))
    return nops, L, bad


def cuts_for(layout, tier):
    """Cut offsets inside the last segment's final chunk: the end of every value of the target channel
    (truncated final chunk holding 0..n-1 values), one byte into the following value, and mid-chunk."""
    last = layout[-1]
    if last['chunks'] == 0:
        return []
    lo, hi = last['chunk_starts'][-1], last['end']
    cuts = set([(lo + hi) // 2, hi - 1])
    ext = [e for e in last['extents'].get(F.A, []) if e[0] == last['chunks'] - 1]
    n = 0
    for p_, i_ in last['data_objs']:
        if p_ == F.A:
            n = i_['n']
    if ext and n:
        _c, a0, a1 = ext[0]
        w = (a1 - a0) // n
        for k in range(0, n):
            cuts.add(a0 + k * w)
            cuts.add(a0 + k * w + 1)
    elif last['interleaved'] or last['daqmx']:
        rows = n or 1
        w = max(1, (hi - lo) // rows)
        for k in range(0, rows):
            cuts.add(lo + k * w)
            cuts.add(lo + k * w + 1)
    return sorted(c for c in cuts if lo < c < hi)


def run_file(item):
    kind, opts, tier, seed, truncate = item
    hist = F.f4_build(kind, opts, seed)
    data, _i, layout, ref = G.encode(hist, seed=seed)
    res = {'counters': {'files': 0, 'ops': 0, 'nontrivial': 0, 'gap_files': 0, 'truncated_files': 0},
           'outcomes': {}, 'violations': [], 'samples': []}
    variants = [(None, data, False)]
    if truncate and kind not in ('str', 'strb') and not kind.startswith('shortmid'):
        for c in cuts_for(layout, tier):
            variants.append((c, data[:c], False))
    if kind == 'ts':
        # the same operations on files read / opened with raw_timestamps=True (TimestampArray / TdmsTimestamp results)
        variants += [(c, d, True) for c, d, _r in list(variants)]
    if kind in ('daqmx', 'be', 'il') and len(opts) <= 2:
        # ... and with memmap_dir (receivers backed by memory-mapped temporary files), complete files only
        variants += [(None, data, 'memmap')]
    gap = F.f4_has_gap(opts)
    if gap and kind in ('il', 'mixed-il', 'int', 'be'):
        # the companion channel, which has data in every segment, read through segments in which the target is listed without data
        variants += [(None, data, 'companion')]
    for cut, d, raw_ts in variants:
        memmap = raw_ts == 'memmap'
        target = F.B if raw_ts == 'companion' else F.A
        raw_ts = raw_ts is True
        nops, L, bad = check_file(d, target, raw_timestamps=raw_ts, memmap=memmap)
        res['counters']['files'] += 1
        res['counters']['ops'] += nops
        if L >= 2:
            res['counters']['nontrivial'] += 1
        if gap:
            res['counters']['gap_files'] += 1
        if cut is not None:
            res['counters']['truncated_files'] += 1
        if cut is None and target == F.A and kind.startswith('shortmid') and kind != 'shortmid-daqmx' and not raw_ts and not memmap:
            why = judge_short(d, hist, layout, ref)
            res['counters']['short_judged'] = res['counters'].get('short_judged', 0) + 1
            if why:
                bad.append(('short-exact', 'eager', 'TdmsFile.read', 'complete chunks and later segments exact', why))
        if cut is None and L >= 0 and target == F.A:
            exp = H.expected_array(ref, F.A) if (kind != 'daqmx' and not kind.startswith('shortmid')) else None
            if exp is not None and exp[1] != L:
                bad.append(('full-length', 'eager', 'len', exp[1], L))
        res['outcomes']['clean' if not bad else 'deviates'] = res['outcomes'].get('clean' if not bad else 'deviates', 0) + 1
        for (k, mode, op, exp, got) in bad[:6]:
            res['violations'].append({
                'case': {'kind': kind, 'opts': [list(o) if isinstance(o, tuple) else o for o in opts], 'cut': cut,
                         'seed': seed, 'op': op, 'mode': mode, 'raw_ts': raw_ts, 'memmap': memmap, 'companion': target == F.B},
                'expected': exp, 'observed': got,
                'signature': {'kind': k, 'mode': mode, 'elem': kind, 'gap_segment_without_channel': gap,
                              'truncated': cut is not None, 'raw_ts': raw_ts, 'memmap': memmap}})
        if not res['samples'] and L >= 3:
            res['samples'].append({'file': G.describe(hist), 'cut': cut, 'len': L, 'operations': nops})
    return res


def run_large(item):
    """One long channel (70 000 values over 4 segments, beyond 2^16): size thresholds - block-wise processing, index widths -
    sit at powers of two, far outside the small family.  Stepped slices over a grid of starts / stops / steps, windows and
    indices around every power of two from 2^8 to 2^16 and around the segment boundaries; oracle as everywhere in C04."""
    which, seed = item
    n = 17500
    if which == 'contiguous':
        hist = [G.seg([(F.A, ['FULL', 'Int32', n]), (F.B, ['FULL', 'Int16', 3])], chunks=1) for _ in range(4)]
    elif which == 'interleaved':
        hist = [G.seg([(F.A, ['FULL', 'Int32', n // 2]), (F.B, ['FULL', 'Int16', n // 2])], chunks=2, interleaved=True) for _ in range(4)]
    elif which == 'huge-interleaved':
        # one interleaved segment of 5.2 MB (640 chunks x 1024 rows) followed by a small one: beyond 4 MiB / 2^19 values
        hist = [G.seg([(F.A, ['FULL', 'Int32', 1024]), (F.B, ['FULL', 'Int32', 1024])], chunks=640, interleaved=True),
                G.seg([(F.A, ['FULL', 'Int32', 5]), (F.B, ['FULL', 'Int32', 5])], chunks=1, interleaved=True)]
    elif which == 'huge-contiguous':
        hist = [G.seg([(F.B, ['FULL', 'Int32', 1024]), (F.A, ['FULL', 'Int32', 1024])], chunks=300),
                G.seg([(F.A, ['FULL', 'Int32', 5])], chunks=1)]
    else:
        hist = [G.seg([(F.A, ['FULL', 'Int32', 3500]), (F.B, ['FULL', 'Int16', 1])], chunks=5)] + [G.seg([], meta=False, chunks=5) for _ in range(3)]
    # the pooled values repeat with a short period, which would make one chunk look like any other: number the values of A
    count = 0
    for sg in hist:
        for o in sg['objects']:
            if o['path'] == F.A and o['enc'][0] == 'FULL':
                per_chunk, chunks = o['enc'][2], sg['chunks']
                o['enc'] = ['FULL', 'Int32', per_chunk, [struct.pack('<i', count + j).hex() for j in range(per_chunk * chunks)]]
                last_enc = (per_chunk, chunks)
        if not sg.get('meta', True):
            per_chunk, chunks = last_enc[0], sg['chunks']
        count += per_chunk * chunks
    if which == 'multichunk':
        # metadata-less segments repeat the index, explicit values included: give every segment its own numbered block instead
        hist = [G.seg([(F.A, ['FULL', 'Int32', 3500, [struct.pack('<i', si * 17500 + j).hex() for j in range(17500)]]),
                       (F.B, ['FULL', 'Int16', 1])], chunks=5) for si in range(4)]
    data = G.encode(hist, seed=seed)[0]
    huge = which.startswith('huge')
    res = {'counters': {'files': 1, 'ops': 0, 'nontrivial': 1, 'gap_files': 0, 'truncated_files': 0}, 'outcomes': {}, 'violations': [], 'samples': []}
    eager = H.TdmsFile.read(io.BytesIO(data))
    base = eager['g']['a'][:]
    L = len(base)
    lazy = H.TdmsFile.open(io.BytesIO(data))
    bad = []
    try:
        for mode, ch in (('lazy', lazy['g']['a']), ('eager', eager['g']['a'])):
            marks = sorted(set([2 ** k for k in range(8, 20)] + [n, 2 * n, 3 * n, L])) if huge else \
                sorted(set([2 ** k for k in range(8, 17)] + [n, 2 * n, 3 * n, L]))
            marks = [b for b in marks if b <= L]
            for start in ((None, 10, 131071, 262145, -5) if huge else (None, 1, 16383, 16385, 40000, -5)):
                for stop in ((None, 262144, 550010, L - 1) if huge else (None, 16384, 65537, L - 1, -16385)):
                    for step in ((1, 3, 1000, 65537, -1, -7) if huge else (2, 3, 5, 7, 1000, 4096, 16384, 16385, -1, -2, -3, -7, -1000, -16385)):
                        res['counters']['ops'] += 1
                        exp = base[start:stop:step]
                        r = H.guarded(ch.__getitem__, slice(start, stop, step))
                        if r[0] != 'ok' or not eq(r[1], exp):
                            bad.append(('slice-mismatch' if r[0] == 'ok' else 'slice-raised', mode, ['slice', start, stop, step], show(exp),
                                        show(r[1]) if r[0] == 'ok' else 'raised %s: %s' % (r[1], r[2])))
            for b in marks:
                for off, ln in ((b - 2, 5), (b - 1, 1), (b, 2), (max(0, b - 3), None)):
                    if off > L:
                        continue
                    res['counters']['ops'] += 1
                    exp = base[off:] if ln is None else base[off:off + ln]
                    r = H.guarded(ch.read_data, off, ln)
                    if r[0] != 'ok' or not eq(r[1], exp):
                        bad.append(('window-mismatch' if r[0] == 'ok' else 'window-raised', mode, ['read_data', off, ln, True], show(exp),
                                    show(r[1]) if r[0] == 'ok' else 'raised %s: %s' % (r[1], r[2])))
                for i in (b - 1, b, b + 1, -b):
                    if not -L <= i < L:
                        continue
                    res['counters']['ops'] += 1
                    r = H.guarded(ch.__getitem__, i)
                    if r[0] != 'ok' or H.norm_scalar(r[1]) != H.norm_scalar(base[i]):
                        bad.append(('index-mismatch' if r[0] == 'ok' else 'index-raised', mode, ['index', i], repr(H.norm_scalar(base[i])),
                                    repr(H.norm_scalar(r[1])) if r[0] == 'ok' else 'raised %s: %s' % (r[1], r[2])))
    finally:
        lazy.close()
    res['outcomes']['clean' if not bad else 'deviates'] = 1
    for (k, mode, op, exp, got) in bad[:6]:
        res['violations'].append({'case': {'large': which, 'seed': seed, 'op': op, 'mode': mode}, 'expected': exp[:200], 'observed': got[:200],
                                  'signature': {'kind': k, 'mode': mode, 'elem': 'large-' + which, 'gap_segment_without_channel': False,
                                                'truncated': False, 'raw_ts': False}})
    return res


def files(tier):
    out = []
    for kind in F.F4_KINDS:
        if tier == 'quick':
            for d in (1, 2):
                out += [(kind, o) for o in F.f4_histories(kind, d, F.F4_OPTIONS if d == 1 else F.F4_OPTIONS_SMALL)]
            # three segments with a gap in the middle: the shape that needs a window crossing it
            out += [(kind, (x, g, y)) for x in [(2, 1), (1, 2)] for g in ('abs', 'nod') for y in [(2, 2), (3, 2), (1, 1)]]
        else:
            for d in (1, 2):
                out += [(kind, o) for o in F.f4_histories(kind, d)]
            out += [(kind, o) for o in F.f4_histories(kind, 3, ['abs', 'nod', (2, 1), (1, 2), (3, 2)])]
            out += [(kind, (x, g, y, z)) for x in [(2, 1), (1, 2)] for g in ('abs', 'nod') for y in [(2, 2), (1, 1)]
                    for z in ['abs', (2, 3)]]
        if kind in ('int', 'str', 'strb', 'ts', 'be'):
            # channels that never hold a value / hold zero values in a listed segment
            out += [(kind, o) for o in [((0, 1),), ('nod',), ((0, 1), (2, 1)), ((2, 1), (0, 1), (2, 2)),
                                        ((1, 2), (0, 1), (3, 2)), ('nod', (0, 1))]]
    # segment lengths whose running totals coincide with multiples of the first (4,2,6 -> 4,6,12 = 3 x 4): every (a,b,c) in 1..4
    import itertools
    out += [('int', ((a, 1), (b, 1), (c, 1))) for a, b, c in itertools.product((1, 2, 3, 4), repeat=3)]
    # short last chunks in segments that are not the last one
    for kind in ('shortmid', 'shortmid-il', 'shortmid-daqmx', 'shortmid-slow'):
        opts_ = [(2, 2), (3, 2), (2, 3), (3, 1)] if kind == 'shortmid' else [(2, 2), (3, 2), (2, 3)]
        out += [(kind, (x,)) for x in opts_]
        out += [(kind, (x, y)) for x in opts_ for y in opts_ + ['abs']]
        out += [(kind, (x, y, z)) for x in opts_[:2] for y in opts_[:2] + ['nod'] for z in [(2, 2), (1, 1)]]
    for n, chunks in ((2, 2), (3, 1), (3, 2)):
        for short in range(1, 6 * n + 2):
            out += [('shortmid-every', ((n, chunks, short), (2, 2))), ('shortmid-every', ((n, chunks, short), 'abs', (2, 1)))]
        for short in range(1, 6 * n):
            out += [('shortmid-il-every', ((n, chunks, short), (2, 2))), ('shortmid-il-every', ((n, chunks, short), 'nod', (2, 1)))]
    return out


def judge_short(data, hist, layout, ref):
    """Exact part of the oracle for files with 'less data than expected' segments (non-DAQmx kinds).  The format does not say
    what an incomplete chunk in the middle of a file holds, so per channel the eager read has to be
    [values of the complete chunks] + [at most one chunk's worth of values] per short segment, and exactly the encoded values for
    every other segment - in particular nothing of a later segment is lost, shifted or taken for data.
    -> None or message"""
    o = H.observe(data, lazy=False)
    if o[0] != 'ok':
        return 'eager read raised %s: %s' % (o[1], o[2])
    for path, val in o[1]['data'].items():
        full = ref.values.get(path, [])
        if not full or ref.dtype.get(path) == 'String' or isinstance(ref.dtype.get(path), tuple):
            continue
        isz = len(full[0])
        got = [val[2][i * isz:(i + 1) * isz] for i in range(val[1])]
        # pieces: (exact values) or (None, max count)
        alts = [[]]
        pos = 0
        for si, seg in enumerate(hist):
            cnt = ref.seg_counts[si].get(path, 0)
            if seg.get('short') and cnt:
                present = layout[si]['end'] - layout[si]['data_start']
                chunk_bytes = (present + seg['short']) // seg['chunks']
                c_full = present // chunk_bytes
                per = cnt // seg['chunks']
                exact = full[pos:pos + c_full * per]
                alts = [a + exact + [None] * k for a in alts for k in range(0, per + 1)]
            else:
                alts = [a + full[pos:pos + cnt] for a in alts]
            pos += cnt
        if not any(len(a) == len(got) and all(e is None or e == g for e, g in zip(a, got)) for a in alts):
            return '%s: %d values %s fit none of the %d admissible readings (complete chunks and later segments exact)' % (
                path, len(got), H._short(val[2]), len(alts))
    return None


def run(ctx):
    from ..run import merge
    fl = files(ctx.tier)
    items = [(k, o, ctx.tier, ctx.seed, True) for k, o in fl]
    # largest files first for better load balance
    items.sort(key=lambda it: -sum((o[0] * o[1]) if isinstance(o, tuple) else 0 for o in it[1]))
    m = merge(ctx.map(run_file, items, chunksize=1) + ctx.map(run_large, [(w, ctx.seed) for w in ('contiguous', 'interleaved', 'multichunk', 'huge-interleaved', 'huge-contiguous')]))
    c = m['counters']
    vac = []
    if not c.get('gap_files'):
        vac.append('no file with a gap segment')
    if not c.get('truncated_files'):
        vac.append('no truncated file')
    cov = {'evaluations': c['ops'], 'files': c['files'], 'distinct_nontrivial': c['nontrivial'],
           'rule': 'evaluations = individual window/slice/index operations; distinct_nontrivial = distinct files '
                   '(distinct parameter tuples incl. cut offset) whose channel holds >= 2 values',
           'gap_files': c['gap_files'], 'truncated_files': c['truncated_files'], 'kinds': F.F4_KINDS + ['shortmid', 'shortmid-il', 'shortmid-daqmx', 'shortmid-slow', 'shortmid-every', 'shortmid-il-every'],
           'short_judged': c.get('short_judged', 0),
           'outcomes': m['outcomes'], 'samples': m['samples'][:5], 'exhaustive': True, 'vacuity_failures': vac}
    return cov, m['violations']


def replay(case):
    if 'large' in case:
        r = run_large((case['large'], case.get('seed', 0)))
        for v in r['violations']:
            if v['case']['op'] == case['op'] and v['case']['mode'] == case['mode']:
                return True, v['expected'], v['observed']
        if r['violations']:
            return True, r['violations'][0]['expected'], r['violations'][0]['observed']
        return False, 'NumPy indexing of the full array', 'equal'
    opts = tuple(tuple(o) if isinstance(o, list) else o for o in case['opts'])
    hist = F.f4_build(case['kind'], opts, case.get('seed', 0))
    data = G.encode(hist, seed=case.get('seed', 0))[0]
    if case.get('cut') is not None:
        data = data[:case['cut']]
    _n, _L, bad = check_file(data, F.B if case.get('companion') else F.A, raw_timestamps=bool(case.get('raw_ts')), max_bad=1000,
                             memmap=bool(case.get('memmap')))
    for (k, mode, op, exp, got) in bad:
        if op == case['op'] and mode == case['mode']:
            return True, exp, got
    if bad:
        k, mode, op, exp, got = bad[0]
        return True, exp, '%s (different operation deviates now: %s %s)' % (got, mode, op)
    return False, 'NumPy indexing of the full array', 'equal'
