"""Independent evaluation of NI_Scale[i] definitions as a dataflow graph (no import of nptdms).

A scale spec is a plain dict; `props_for(specs)` turns a list of specs into TDMS properties (for the encoder),
`evaluate(levels, raw, scalers)` computes the expected scaled values in float64 with plain Python arithmetic.
"""
import bisect
import struct

RAW = 0xFFFFFFFF


def _s(name, v):
    return [name, 'String', v.encode('utf-8').hex()]


def _d(name, v):
    return [name, 'DoubleFloat', struct.pack('<d', v).hex()]


def _u(name, v):
    return [name, 'Uint32', struct.pack('<I', v).hex()]


def props_for(specs, number_of_scales=True, status=None):
    """TDMS property triples for a list of scale specs (None entries = DAQmx raw scalers, no properties)."""
    out = []
    if number_of_scales:
        out.append(_u('NI_Number_Of_Scales', len(specs)))
    if status is not None:
        out.append(_s('NI_Scaling_Status', status))
    for i, sp in enumerate(specs):
        if sp is None:
            continue
        t = sp['type']
        pre = 'NI_Scale[%d]_' % i
        out.append(_s(pre + 'Scale_Type', t))
        if t == 'Linear':
            out += [_d(pre + 'Linear_Slope', sp['slope']), _d(pre + 'Linear_Y_Intercept', sp['intercept'])]
            if sp.get('src') is not None:
                out.append(_u(pre + 'Linear_Input_Source', sp['src']))
        elif t == 'Polynomial':
            if sp.get('size', True):
                out.append(_u(pre + 'Polynomial_Coefficients_Size', len(sp['coef'])))
            for k, c in enumerate(sp['coef']):
                out.append(_d(pre + 'Polynomial_Coefficients[%d]' % k, c))
            if sp.get('src') is not None:
                out.append(_u(pre + 'Polynomial_Input_Source', sp['src']))
        elif t == 'Table':
            out += [_u(pre + 'Table_Pre_Scaled_Values_Size', len(sp['pre'])), _u(pre + 'Table_Scaled_Values_Size', len(sp['scaled']))]
            for k, c in enumerate(sp['pre']):
                out.append(_d(pre + 'Table_Pre_Scaled_Values[%d]' % k, c))
            for k, c in enumerate(sp['scaled']):
                out.append(_d(pre + 'Table_Scaled_Values[%d]' % k, c))
            if sp.get('src') is not None:
                out.append(_u(pre + 'Table_Input_Source', sp['src']))
        elif t in ('Add', 'Subtract'):
            out += [_u(pre + '%s_Left_Operand_Input_Source' % t, sp['left']), _u(pre + '%s_Right_Operand_Input_Source' % t, sp['right'])]
        else:
            raise ValueError(t)
    return out


def _interp(x, xp, fp):
    """clamped piecewise-linear interpolation, xp strictly increasing"""
    if x != x:
        return x
    if x <= xp[0]:
        return fp[0]
    if x >= xp[-1]:
        return fp[-1]
    j = bisect.bisect_right(xp, x) - 1
    slope = (fp[j + 1] - fp[j]) / (xp[j + 1] - xp[j])
    return slope * (x - xp[j]) + fp[j]


def eval_scale(sp, get):
    """values of one scale; get(src) returns the list of float inputs of a source"""
    t = sp['type']
    if t == 'Linear':
        xs = get(sp.get('src', RAW) if sp.get('src') is not None else RAW)
        return [x * sp['slope'] + sp['intercept'] for x in xs]
    if t == 'Polynomial':
        xs = get(sp.get('src', RAW) if sp.get('src') is not None else RAW)
        coef = sp['coef']
        out = []
        for x in xs:
            acc = 0.0
            for c in reversed(coef):
                acc = acc * x + c
            out.append(acc if coef else 0.0)
        return out
    if t == 'Table':
        xs = get(sp.get('src', RAW) if sp.get('src') is not None else RAW)
        xp, fp = list(sp['scaled']), list(sp['pre'])
        if not all(b > a for a, b in zip(xp, xp[1:])):
            xp, fp = xp[::-1], fp[::-1]
        return [_interp(x, xp, fp) for x in xs]
    if t == 'Add':
        return [a + b for a, b in zip(get(sp['left']), get(sp['right']))]
    if t == 'Subtract':
        # documented convention of the implementation ("matches the Excel TDMS plug-in"): right - left
        return [b - a for a, b in zip(get(sp['left']), get(sp['right']))]
    raise ValueError(t)


def evaluate(specs, raw, scalers=None):
    """Output of the last scale.  raw: list of floats (or None for DAQmx); scalers: {id: list of floats}."""
    memo = {}

    def get(src):
        if src == RAW:
            if raw is None:
                raise ValueError('raw input source on DAQmx data')
            return raw
        if src in memo:
            return memo[src]
        sp = specs[src]
        if sp is None:
            memo[src] = scalers[src]
        else:
            memo[src] = eval_scale(sp, get)
        return memo[src]
    return get(len(specs) - 1)


def depends_on_raw_only_via_noop(specs):
    return False
