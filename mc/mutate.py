"""Systematic single-token mutation of /repo/nptdms (a tool for assessing the checks; never part of a registered command).

stage 1  generate mutants (comparison / arithmetic / boolean / constant / copy / keyword operators, one per occurrence)
stage 2  keep those the repository's own test suite does not kill (parallel scratch worktrees under /dev/shm)
stage 3  run the quick checks against every survivor (VERIF_REPO), stopping at the first check that reports a VIOLATION
Survivors of stage 3 are either equivalent mutants or gaps in the checks; they are listed for manual triage.

usage: /venv/bin/python -m mc.mutate gen [--since <commit>] | suite [N] | checks [N]      (state in /dev/shm/verif_mutate/)
"""
import json
import os
import re
import shutil
import subprocess
import sys
import tempfile
from concurrent.futures import ThreadPoolExecutor

ROOT = os.path.dirname(os.path.dirname(os.path.abspath(__file__)))
STATE = '/dev/shm/verif_mutate'
PY = '/venv/bin/python'
FILES = ['reader.py', 'tdms_segment.py', 'base_segment.py', 'tdms.py', 'channel_data.py', 'types.py', 'common.py', 'writer.py',
         'scaling.py', 'daqmx.py', 'timestamp.py']
# which checks look at which file first (all others follow)
RELEVANT = {
    'reader.py': ['C04', 'C05', 'C06', 'C09', 'C19', 'C20', 'C02', 'C01', 'C03'],
    'tdms_segment.py': ['C02', 'C01', 'C06', 'C04', 'C05', 'C15', 'C19', 'C03'],
    'base_segment.py': ['C01', 'C03', 'C06', 'C11', 'C15'],
    'tdms.py': ['C04', 'C03', 'C05', 'C14', 'C12', 'C13', 'C20', 'C01', 'C09', 'C16', 'C19'],
    'channel_data.py': ['C03', 'C01', 'C15', 'C10', 'C14', 'C04'],
    'types.py': ['C01', 'C15', 'C12', 'C07', 'C08'],
    'common.py': ['C16', 'C01', 'C07'],
    'writer.py': ['C07', 'C08', 'C10', 'C16', 'C09', 'C12', 'C20'],
    'scaling.py': ['C13', 'C17', 'C18', 'C14'],
    'daqmx.py': ['C11', 'C06', 'C15', 'C14'],
    'timestamp.py': ['C12', 'C03', 'C14', 'C15'],
}
ALL = ['C%02d' % i for i in range(1, 21)]

OPS = [
    (r'(?<![<>=!])<=(?!=)', ['<']), (r'(?<![<>=!])>=(?!=)', ['>']), (r'(?<![<>=!-])<(?![<=])', ['<=']), (r'(?<![<>=!-])>(?![>=])', ['>=']),
    (r'==', ['!=']), (r'!=', ['==']),
    (r'(?<![\w\)\]]) \+ ', [' - ']), (r' \+ ', [' - ']), (r' - ', [' + ']), (r' \* ', [' // ']), (r' // ', [' * ']), (r' % ', [' // ']),
    (r'\+= ', ['-= ']), (r'-= ', ['+= ']),
    (r'\band\b', ['or']), (r'\bor\b', ['and']), (r'\bnot ', ['']),
    (r'\bis None\b', ['is not None']), (r'\bis not None\b', ['is None']),
    (r'\bTrue\b', ['False']), (r'\bFalse\b', ['True']),
    (r'\bcopy\(([^()]*)\)', [r'\1']),
    (r'\bbreak\b', ['continue']), (r'\bcontinue\b', ['break']),
    (r'(?<![\w.])0(?![\w.x])', ['1']), (r'(?<![\w.])1(?![\w.])', ['0', '2']),
    (r"side='right'", ["side='left'"]), (r"side='left'", ["side='right'"]),
    (r'\[0\]', ['[-1]']), (r'\[-1\]', ['[0]']),
]


def _added_lines(fn, since):
    """1-based numbers of the lines of /repo/nptdms/<fn> that were added or changed after commit `since`"""
    out = subprocess.run(['git', '-C', '/repo', 'diff', '-U0', since, 'HEAD', '--', 'nptdms/' + fn], capture_output=True, text=True,
                         check=True).stdout
    keep = set()
    for m in re.finditer(r'^@@ -\S+ \+(\d+)(?:,(\d+))? @@', out, re.M):
        a, n = int(m.group(1)), int(m.group(2) or 1)
        keep.update(range(a, a + n))
    return keep


def gen(since=None):
    os.makedirs(STATE, exist_ok=True)
    muts = []
    for fn in FILES:
        path = os.path.join('/repo/nptdms', fn)
        lines = open(path).read().split('\n')
        in_doc = False
        only = _added_lines(fn, since) if since else None
        for li, line in enumerate(lines):
            st = line.strip()
            if only is not None and (li + 1) not in only:
                if st.count('"""') % 2 == 1:
                    in_doc = not in_doc
                continue
            if st.count('"""') % 2 == 1:
                in_doc = not in_doc
                continue
            if in_doc or not st or st.startswith('#') or st.startswith(('import ', 'from ', 'def ', 'class ', '@', 'log.', 'raise ')) or '"""' in st:
                continue
            code = line.split('  #')[0]
            for pat, reps in OPS:
                for m in re.finditer(pat, code):
                    # skip matches inside string literals (crude: odd number of quotes before the match)
                    before = code[:m.start()]
                    if before.count("'") % 2 or before.count('"') % 2:
                        continue
                    for rep in reps:
                        new = code[:m.start()] + m.expand(rep) + code[m.end():] + line[len(code):]
                        if new != line:
                            muts.append({'file': fn, 'line': li + 1, 'old': line, 'new': new})
    seen = set()
    out = []
    for m in muts:
        k = (m['file'], m['line'], m['new'])
        if k not in seen:
            seen.add(k)
            m['id'] = len(out)
            out.append(m)
    json.dump(out, open(os.path.join(STATE, 'mutants.json'), 'w'), indent=0)
    print('generated', len(out), 'mutants')
    by = {}
    for m in out:
        by[m['file']] = by.get(m['file'], 0) + 1
    print(by)


def _worktree():
    d = tempfile.mkdtemp(prefix='verif_mutwt_', dir='/dev/shm')
    os.rmdir(d)
    subprocess.run(['git', '-C', '/repo', 'worktree', 'add', '-q', '--detach', d, 'HEAD'], check=True, capture_output=True)
    return d


def _apply(wt, m):
    p = os.path.join(wt, 'nptdms', m['file'])
    lines = open(p).read().split('\n')
    assert lines[m['line'] - 1] == m['old'], 'tree changed under the mutant list'
    lines[m['line'] - 1] = m['new']
    open(p, 'w').write('\n'.join(lines))


def _revert(wt):
    subprocess.run(['git', '-C', wt, 'checkout', '-q', '--', '.'], check=True, capture_output=True)


def suite(limit=None, workers=16):
    muts = json.load(open(os.path.join(STATE, 'mutants.json')))
    resf = os.path.join(STATE, 'suite.json')
    res = json.load(open(resf)) if os.path.exists(resf) else {}
    todo = [m for m in muts if str(m['id']) not in res][:limit]
    wts = [_worktree() for _ in range(workers)]
    import queue
    q = queue.Queue()
    for w in wts:
        q.put(w)

    def one(m):
        wt = q.get()
        try:
            _apply(wt, m)
            env = dict(os.environ, PYTHONPATH=wt, PYTHONDONTWRITEBYTECODE='1')
            # compile first: a syntax error is not a mutant
            c = subprocess.run([PY, '-c', 'import nptdms'], cwd=wt, env=env, capture_output=True)
            if c.returncode:
                return m['id'], 'invalid'
            try:
                p = subprocess.run([PY, '-m', 'pytest', '-q', '-x', '-p', 'no:cacheprovider', '--timeout=120'], cwd=wt, env=env,
                                   capture_output=True, text=True, timeout=400)
                return m['id'], 'survived' if p.returncode == 0 else 'killed'
            except subprocess.TimeoutExpired:
                return m['id'], 'killed'
        finally:
            _revert(wt)
            q.put(wt)
    try:
        with ThreadPoolExecutor(workers) as ex:
            for i, (mid, verdict) in enumerate(ex.map(one, todo)):
                res[str(mid)] = verdict
                if i % 25 == 0:
                    json.dump(res, open(resf, 'w'))
                    print(i, len(todo), sum(1 for v in res.values() if v == 'survived'), 'survivors so far')
                    sys.stdout.flush()
    finally:
        json.dump(res, open(resf, 'w'))
        for w in wts:
            subprocess.run(['git', '-C', '/repo', 'worktree', 'remove', '--force', w], capture_output=True)
            shutil.rmtree(w, ignore_errors=True)
    print('suite: %d survived of %d judged' % (sum(1 for v in res.values() if v == 'survived'), len(res)))


def checks(limit=None, parallel=4):
    muts = {m['id']: m for m in json.load(open(os.path.join(STATE, 'mutants.json')))}
    sres = json.load(open(os.path.join(STATE, 'suite.json')))
    resf = os.path.join(STATE, 'checks.json')
    res = json.load(open(resf)) if os.path.exists(resf) else {}
    todo = [muts[int(k)] for k, v in sorted(sres.items(), key=lambda kv: int(kv[0])) if v == 'survived' and k not in res][:limit]
    wts = [_worktree() for _ in range(parallel)]
    import queue
    q = queue.Queue()
    for w in wts:
        q.put(w)

    def one(m):
        wt = q.get()
        out = tempfile.mkdtemp(prefix='verif_mutout_', dir='/dev/shm')
        try:
            _apply(wt, m)
            order = RELEVANT.get(m['file'], ALL)   # only the checks whose subject the file is (the others cannot see it)
            env = dict(os.environ, VERIF_REPO=wt, VERIF_OUT_DIR=out, VERIF_WORKERS=str(max(2, 16 // parallel)))
            for cid in order:
                p = subprocess.run([os.path.join(ROOT, 'check'), cid, 'quick'], cwd=ROOT, env=env, capture_output=True, text=True)
                if p.returncode == 1 and 'VIOLATION' in p.stdout:
                    return m['id'], {'caught_by': cid}
                if p.returncode == 2:
                    return m['id'], {'caught_by': cid, 'harness_error': (p.stdout + p.stderr)[-300:]}
            return m['id'], {'caught_by': None}
        finally:
            _revert(wt)
            shutil.rmtree(out, ignore_errors=True)
            q.put(wt)
    try:
        with ThreadPoolExecutor(parallel) as ex:
            for i, (mid, verdict) in enumerate(ex.map(one, todo)):
                res[str(mid)] = verdict
                json.dump(res, open(resf, 'w'))
                m = muts[mid]
                print(mid, m['file'], m['line'], verdict.get('caught_by'), '|', m['old'].strip()[:60], '->', m['new'].strip()[:60])
                sys.stdout.flush()
    finally:
        for w in wts:
            subprocess.run(['git', '-C', '/repo', 'worktree', 'remove', '--force', w], capture_output=True)
            shutil.rmtree(w, ignore_errors=True)
    unc = [k for k, v in res.items() if v.get('caught_by') is None]
    print('checks: %d of %d suite-survivors not caught' % (len(unc), len(res)))


if __name__ == '__main__':
    cmd = sys.argv[1]
    if cmd == 'gen' and len(sys.argv) > 3 and sys.argv[2] == '--since':
        gen(sys.argv[3])
        sys.exit(0)
    arg = int(sys.argv[2]) if len(sys.argv) > 2 else None
    {'gen': gen, 'suite': lambda: suite(arg), 'checks': lambda: checks(arg)}[cmd]()
