import io, os, struct, numpy as np, logging, tempfile, shutil
from probe1 import seg, obj, i32, s
from nptdms import TdmsFile, TdmsWriter, ChannelObject
from nptdms.log import log_manager
log_manager.set_level(logging.CRITICAL)
A="/'g'/'a'"; B="/'g'/'b'"
d = tempfile.mkdtemp(dir='/dev/shm')
def fds():
    out=set()
    for x in os.listdir('/proc/self/fd'):
        try: p=os.readlink('/proc/self/fd/'+x)
        except OSError: continue
        if p.startswith(d): out.add(p)
    return out
segs=[seg(14,[obj(A,(3,2)),obj(B,(3,1))], i32(1,2,9)), seg(8,[],i32(3,4,8)), seg(14,[obj(A,(3,1))], i32(5))]
f=b''.join(segs)
def index_of(segs):
    out=b''
    for sg in segs:
        rdo=struct.unpack('<Q',sg[20:28])[0]; out+=b'TDSh'+sg[4:28+rdo]
    return out
idx=index_of(segs)
p=os.path.join(d,'x.tdms')
leaks=0; n=0
try:
  for with_index in (False, True):
    for cut in range(0,len(f)+1):
        open(p,'wb').write(f[:cut])
        if with_index: open(p+'_index','wb').write(idx)
        elif os.path.exists(p+'_index'): os.unlink(p+'_index')
        for api in ('read','read_metadata','open'):
            n+=1
            exc=None
            try:
                if api=='read': t=TdmsFile.read(p)
                elif api=='read_metadata': t=TdmsFile.read_metadata(p)
                else:
                    with TdmsFile.open(p) as t:
                        for g in t.groups():
                            for c in g.channels(): c[:]
            except Exception as e: exc=e
            left=fds()
            if left: leaks+=1; print('LEAK',with_index,cut,api,type(exc).__name__ if exc else None,left)
  # index cuts with full data
  for cut in range(0,len(idx)+1):
    open(p,'wb').write(f); open(p+'_index','wb').write(idx[:cut])
    for api in ('read','open'):
        n+=1; exc=None
        try:
            if api=='read': t=TdmsFile.read(p)
            else:
                with TdmsFile.open(p) as t:
                    for g in t.groups():
                        for c in g.channels(): c[:]
        except Exception as e: exc=e
        left=fds()
        if left: leaks+=1; print('LEAK idxcut',cut,api,type(exc).__name__ if exc else None,left)
finally:
    shutil.rmtree(d)
print('executions',n,'leaks',leaks)
