import io, struct, numpy as np, time, tempfile, os
from probe1 import seg, obj, i32
from nptdms import TdmsFile, TdmsWriter, ChannelObject, RootObject, GroupObject, types
f = seg(2|4|8,[obj("/'g'/'a'",(3,2))], i32(1,2,3,4,5,6))
with TdmsFile.open(io.BytesIO(f)) as t:
    c = t['g']['a']; out=[]
    for k,ch in enumerate(t.data_chunks()):
        out.append([int(x) for x in ch['g']['a'][:]]); 
        if k==0: c[5]
    print('C05 chunks with interleaved index', out)

# C07/C12 timestamp
bad=0
t0=time.time()
base=np.datetime64('2020-01-01T00:00:16','us')
for us in range(0,1000000,1):
    v = base+np.timedelta64(us,'us')
    b = types.TimeStamp(v).bytes
    r = types.TimeStamp.read(io.BytesIO(b)).as_datetime64()
    if r!=v:
        bad+=1
        if bad<3: print('C12 bad', v, r)
print('C12 bad count', bad, 'time', time.time()-t0)

# C08: string index length
b = io.BytesIO()
with TdmsWriter(b) as w:
    w.write_segment([ChannelObject('g','s',['ab','c'])])
raw=b.getvalue()
i = raw.find(b"/'g'/'s'")
print('C08 idx len field', struct.unpack('<L', raw[i+8:i+12]), raw[i+8:i+8+4+28].hex())

# C10: defragment with channel without data type / empty string channel
src = seg(2|4|8,[obj("/'g'/'c'",None)],b'')
try:
    TdmsWriter.defragment(io.BytesIO(src), io.BytesIO()); print('C10 ok no dtype')
except Exception as e: print('C10 EXC no dtype', type(e).__name__, e)
src = seg(2|4|8,[obj("/'g'/'c'",(0x20,0))+b''],b'')
# string idx needs extra 8 bytes
def sobj(path,n,total): 
    from probe1 import s
    return s(path)+struct.pack('<LLLQQ',28,0x20,1,n,total)+struct.pack('<L',0)
src = seg(2|4|8,[sobj("/'g'/'c'",0,0)],b'')
try:
    TdmsWriter.defragment(io.BytesIO(src), io.BytesIO()); print('C10 ok empty string')
except Exception as e: print('C10 EXC empty string', type(e).__name__, e)
src = seg(2|4|8,[obj("/'g'/'c'",(0x44,0))],b'')
try:
    TdmsWriter.defragment(io.BytesIO(src), io.BytesIO()); print('C10 ok empty ts')
except Exception as e: print('C10 EXC empty ts', type(e).__name__, e)
src = seg(2|4|8,[obj("/'g'/'c'",(3,0))],b'')
try:
    o=io.BytesIO(); TdmsWriter.defragment(io.BytesIO(src), o); print('C10 ok empty i32', TdmsFile.read(io.BytesIO(o.getvalue()))['g']['c'].dtype)
except Exception as e: print('C10 EXC empty i32', type(e).__name__, e)

# C14 float32 + linear
b = io.BytesIO()
with TdmsWriter(b) as w:
    w.write_segment([ChannelObject('g','c',np.array([1,2,3],dtype=np.float32),{'NI_Number_Of_Scales':1,'NI_Scale[0]_Scale_Type':'Linear','NI_Scale[0]_Linear_Slope':2.0,'NI_Scale[0]_Linear_Y_Intercept':1.0})])
t = TdmsFile.read(io.BytesIO(b.getvalue()))
c=t['g']['c']; print('C14 declared', c.dtype, 'actual', c[:].dtype)
# timing of a read
t0=time.time()
for _ in range(1000): TdmsFile.read(io.BytesIO(f))
print('read ms', (time.time()-t0))
t0=time.time()
for _ in range(1000):
    with TdmsFile.open(io.BytesIO(f)) as t: t['g']['a'][:]
print('open+slice ms', (time.time()-t0))
