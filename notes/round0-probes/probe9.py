import numpy as np, time, warnings
warnings.simplefilter('ignore')
import thermocouples_reference as tr
from nptdms import thermocouples as tc
def ref_fwd(name, T):
    f = tr.thermocouples[name].func
    out = np.full(T.shape, np.nan)
    for tmin,tmax,coefs,ec in f.table:
        m = (T>=tmin)&(T<=tmax)
        v = np.zeros(m.sum())
        for c in coefs: v = v*T[m] + c
        if ec: v = v + ec[0]*np.exp(ec[1]*(T[m]-ec[2])**2)
        out[m]=v
    return out
for name in 'BEJKNRST':
    f = tr.thermocouples[name].func
    lo, hi = f.table[0][0], f.table[-1][1]
    T = np.linspace(lo, hi, 200001)
    vr = ref_fwd(name,T); impl = getattr(tc,'type_'+name.lower())
    vi = impl.celsius_to_mv(T)
    Ti = impl.mv_to_celsius(vr)
    e = np.abs(Ti-T)
    print(name, lo, hi, 'fwd maxabs', np.max(np.abs(vr-vi)), 'inv max', e.max().round(4), 'at T', T[e.argmax()], 'pieces', [(a,b) for a,b,_,_ in f.table], 'nonmono', int((np.diff(vr)<=0).sum()))
