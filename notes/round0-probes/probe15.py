import io, os, struct, numpy as np, logging, tempfile, shutil
from probe1 import seg, obj, i32, s
from nptdms import TdmsFile
from nptdms.log import log_manager
log_manager.set_level(logging.CRITICAL)
A="/'g'/'a'"; B="/'g'/'b'"
segs=[seg(14,[obj(A,(3,2)),obj(B,(3,1))], i32(1,2,9)+i32(11,12,19)), seg(8,[],i32(3,4,8)), seg(14,[obj(A,(3,1))], i32(5)+i32(6))]
f=b''.join(segs)
def index_of(segs):
    out=b''
    for sg in segs:
        rdo=struct.unpack('<Q',sg[20:28])[0]; out+=b'TDSh'+sg[4:28+rdo]
    return out
idx=index_of(segs)
def summ(t, lazy):
    return {c.path:(len(c), str(c.dtype), [int(x) for x in c[:]]) for g in t.groups() for c in g.channels()}
d=tempfile.mkdtemp(dir='/dev/shm'); p=os.path.join(d,'x.tdms')
try:
    diffs=0
    for cut in range(len(f)-8, len(f)+1):   # cut inside last segment's raw data
        open(p,'wb').write(f[:cut])
        if os.path.exists(p+'_index'): os.unlink(p+'_index')
        r0=summ(TdmsFile.read(p),0)
        with TdmsFile.open(p) as t: l0=summ(t,1)
        open(p+'_index','wb').write(idx)
        try:
            r1=summ(TdmsFile.read(p),0)
            with TdmsFile.open(p) as t: l1=summ(t,1)
        except Exception as e:
            print('cut',cut,'EXC with index',type(e).__name__,e); diffs+=1; continue
        if not(r0==r1==l0==l1): diffs+=1; print('cut',cut,'DIFF',r0,r1,l0,l1)
    print('diffs',diffs)
    # index only
    t=TdmsFile.read(p+'_index'); print('index-only path', {c.path:(len(c),str(c.dtype)) for g in t.groups() for c in g.channels()})
    for fn in [lambda c:c[:], lambda c:c[0], lambda c:c.read_data(), lambda c:list(c.data_chunks()), lambda c:c.data]:
        try: print('index-only read ->', fn(t['g']['a']))
        except Exception as e: print('index-only read EXC', type(e).__name__, str(e)[:60])
    with TdmsFile.open(io.BytesIO(idx)) as t:
        for fn in [lambda c:c[:], lambda c:c[0], lambda c:c.read_data(), lambda c:list(c.data_chunks())]:
            try: print('index-only stream open read ->', fn(t['g']['a']))
            except Exception as e: print('index-only stream EXC', type(e).__name__, str(e)[:60])
        try: print(list(t.data_chunks()))
        except Exception as e: print('file chunks EXC', type(e).__name__, str(e)[:60])
finally: shutil.rmtree(d)
# short read stream
class Short(io.BytesIO):
    def __init__(self,b,k,m): super().__init__(b); self.k=k; self.m=m; self.n=0
    def readinto(self, buf):
        self.n+=1
        if self.n==self.k and len(buf)>self.m: return super().readinto(memoryview(buf)[:self.m])
        return super().readinto(buf)
full = summ(TdmsFile.read(io.BytesIO(f)),0); bad=0; tot=0
for k in range(1,12):
    for m in range(1,12):
        tot+=1
        try:
            r=summ(TdmsFile.read(Short(f,k,m)),0)
            if r!=full: bad+=1; print('short diff',k,m)
        except Exception as e: bad+=1; print('short EXC',k,m,e)
print('short read bad',bad,'of',tot)
