import numpy as np, time, warnings
warnings.simplefilter('ignore')
import thermocouples_reference as tr
from nptdms import thermocouples as tc
print(sorted(tr.thermocouples.keys()))
ref = tr.thermocouples['K']
print([a for a in dir(ref) if not a.startswith('_')])
print(ref.minT_C, ref.maxT_C) if hasattr(ref,'minT_C') else None
for name in 'BEJKNRST':
    ref = tr.thermocouples[name]; impl = getattr(tc,'type_'+name.lower())
    lo, hi = ref.minT_C, ref.maxT_C
    T = np.linspace(lo, hi, 100001)
    t0=time.time(); vr = ref.emf_mVC(T, Tref=0.0); t1=time.time()
    vi = impl.celsius_to_mv(T)
    err = np.nanmax(np.abs(vr-vi)); 
    # inverse
    Ti = impl.mv_to_celsius(vr)
    print(name, lo, hi, 'fwd maxerr', err, 'ref time', round(t1-t0,3), 'inv maxerr', np.nanmax(np.abs(Ti-T)), 'at', T[np.nanargmax(np.abs(Ti-T))], 'nan', np.isnan(vi).sum(), np.isnan(Ti).sum())
