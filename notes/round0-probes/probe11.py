import numpy as np
fps = (10**-6)/2**-64
us = np.arange(10**6, dtype=object)
for name,enc in [('trunc-float', lambda u: int(u*fps)), ('ceil-int', lambda u: -(-u*2**64//10**6)), ('round-int', lambda u:(u*2**64+500000)//10**6), ('ceil+2048', lambda u: min(2**64-1, -(-u*2**64//10**6)+2048 if u else 0))]:
    bad=0
    fr = np.array([enc(int(u)) for u in range(10**6)], dtype=np.uint64)
    dec = (fr / fps)  # float
    got = dec.astype(np.int64)  # truncation like timedelta multiply? check below
    bad = int((got != np.arange(10**6)).sum())
    print(name, 'bad', bad)
# confirm that float * timedelta64 truncates
print((np.array([1.9999999,2.0,2.5,-0.5]) * np.timedelta64(1,'us')))
