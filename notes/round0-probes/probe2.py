import io, struct, numpy as np
from probe1 import seg, obj, i32
from nptdms import TdmsFile
f = (seg(2|4|8,[obj("/'g'/'a'",(3,2)),obj("/'g'/'b'",(3,2))], i32(1,2,11,12))
   + seg(2|4|8,[obj("/'g'/'b'",(3,2))], i32(13,14))
   + seg(2|4|8,[obj("/'g'/'a'",(3,2))], i32(3,4,5,6,7,8)))
with TdmsFile.open(io.BytesIO(f)) as t:
    c = t['g']['a']
    r = t._reader
    print([ (s.num_chunks, [(o.path,o.has_data,o.number_values) for o in s.ordered_objects]) for s in r._segments])
    print(c.read_data(0,5))
    print(r._segment_channel_offsets)
    print([len(ch) for ch in r.read_raw_data_for_channel("/'g'/'a'",0,5)])
