import io, struct, numpy as np
from probe1 import seg, obj, i32
from nptdms import TdmsFile
f = (seg(2|4|8,[obj("/'g'/'a'",(3,3)),obj("/'g'/'b'",(3,2))], i32(1,2,3,11,12))
   + seg(2|4|8,[obj("/'g'/'b'",(3,2))], i32(13,14))
   + seg(2|4|8,[obj("/'g'/'a'",(3,3))], i32(*range(4,16))))
full = TdmsFile.read(io.BytesIO(f))['g']['a'][:]
print(full)
bad=0
with TdmsFile.open(io.BytesIO(f)) as t:
    c = t['g']['a']
    for off in range(0,17):
        for ln in range(0,17):
            try:
                r = c.read_data(off,ln)
                if not np.array_equal(r, full[off:off+ln]): print('C04 MISMATCH',off,ln,r,full[off:off+ln]); bad+=1
            except Exception as e: print('C04 EXC',off,ln,type(e).__name__,e); bad+=1
print('bad',bad)
