import numpy as np, warnings
warnings.simplefilter('ignore')
from nptdms import scaling
from nptdms.timestamp import TdmsTimestamp, TimestampArray
# RTD
R0,A,B,C=100.0,3.9083e-3,-5.775e-7,-4.183e-12
def R(T): return R0*(1+A*T+B*T*T+(C*(T-100)*T**3 if T<0 else 0))
bad=0; worst=0
Ts = list(np.linspace(-200,850,2101)) + [-1e-3,-1e-6,-1e-9,-1e-12,0.0,1e-12,1e-9]
for cfg,lead in [(4,0.0),(3,0.7),(2,0.7)]:
    sc = scaling.RtdScaling(1e-3,R0,A,B,C,lead,cfg,0xFFFFFFFF)
    for T in Ts:
        k = {4:0,3:1,2:2}[cfg]
        V = 1e-3*(R(T)+k*lead)
        try:
            out = sc.scale(np.array([V]))[0]
            err = abs(out-T)/max(1.0,abs(T)); worst=max(worst,err)
            if err>1e-6: bad+=1; print('RTD bad',cfg,T,out)
        except Exception as e:
            bad+=1; print('RTD EXC',cfg,T,e)
print('RTD bad',bad,'worst',worst)
# timestamps within one unit & monotone
from fractions import Fraction
import itertools
units={'s':1,'ms':10**3,'us':10**6,'ns':10**9}
viol=0
for u,U in units.items():
    ks = [0,1,2,U//2,U-2,U-1] if U>1 else [0]
    fr=[]
    for k in ks:
        b = -(-k*2**64//U)  # ceil
        for d in (-2,-1,0,1,2):
            f=b+d
            if 0<=f<2**64: fr.append(f)
    fr=sorted(set(fr+[0,1,2**63,2**64-1]))
    prev=None
    for f in fr:
        ts=TdmsTimestamp(3600000000,f); v=ts.as_datetime64(u)
        exact = Fraction(3600000000)+Fraction(f,2**64)
        got = Fraction(int((v-np.datetime64('1904-01-01T00:00:00',u)).astype('int64')),U)
        if abs(got-exact)>Fraction(1,U): viol+=1; print('unit viol',u,f,got-exact)
        if prev is not None and v<prev: viol+=1; print('mono viol',u,f)
        prev=v
        arr = TimestampArray(np.array([(f,3600000000)],dtype=[('second_fractions','<u8'),('seconds','<i8')])).as_datetime64(u)[0]
        if arr!=v: viol+=1; print('scalar/array differ',u,f,v,arr)
print('ts viol',viol)
