import io, struct, time, numpy as np, traceback
from nptdms import TdmsFile, TdmsWriter, ChannelObject, RootObject, GroupObject, types

def s(x): b=x.encode(); return struct.pack('<L',len(b))+b
def obj(path, idx=None, props=()):
    out = s(path)
    if idx is None: out += b'\xff\xff\xff\xff'
    elif idx == 'same': out += b'\x00\x00\x00\x00'
    else:
        t,n = idx; out += struct.pack('<LLLQ',20,t,1,n)
    out += struct.pack('<L',len(props))
    return out
def seg(toc, objs, data, nso=None):
    meta = struct.pack('<L',len(objs))+b''.join(objs) if toc & 2 else b''
    nso = len(meta)+len(data) if nso is None else nso
    return b'TDSm'+struct.pack('<lLQQ',toc,4713,nso,len(meta))+meta+data

# C01: complex interleaved
try:
    d = np.array([1+2j,3+4j],dtype=np.complex64).tobytes()
    f = seg(2|4|8|32,[obj("/'g'/'c'",(0x08000c,2))],d)
    print('C01 complex interleaved', TdmsFile.read(io.BytesIO(f))['g']['c'][:])
except Exception as e: print('C01 EXC', type(e).__name__, e)

# C03: no data type channel
f = seg(2|4|8,[obj("/'g'/'c'",None)],b'')
t = TdmsFile.read(io.BytesIO(f)); c = t['g']['c']
print('C03 slice', repr(c[:]), c.dtype)
try: print(c.read_data())
except Exception as e: print('C03 EXC read_data', type(e).__name__, e)
with TdmsFile.open(io.BytesIO(f)) as t:
    c = t['g']['c']
    for nm,fn in [('slice',lambda:c[:]),('read_data',lambda:c.read_data()),('chunks',lambda:list(c.data_chunks())), ('raw',lambda:c.read_data(scaled=False))]:
        try: print('C03 lazy',nm, repr(fn()))
        except Exception as e: print('C03 lazy EXC',nm, type(e).__name__, e)

# C04: channel absent from intermediate segment, window ends inside later multi-chunk segment
i32 = lambda *v: np.array(v,dtype='<i4').tobytes()
f = (seg(2|4|8,[obj("/'g'/'a'",(3,2)),obj("/'g'/'b'",(3,2))], i32(1,2,11,12))
   + seg(2|4|8,[obj("/'g'/'b'",(3,2))], i32(13,14))
   + seg(2|4|8,[obj("/'g'/'a'",(3,2))], i32(3,4,5,6,7,8)))
full = TdmsFile.read(io.BytesIO(f))['g']['a'][:]
print('C04 full', full)
with TdmsFile.open(io.BytesIO(f)) as t:
    c = t['g']['a']
    for off in range(0,9):
        for ln in range(0,9):
            try:
                r = c.read_data(off,ln)
                if not np.array_equal(r, full[off:off+ln]): print('C04 MISMATCH',off,ln,r,full[off:off+ln])
            except Exception as e: print('C04 EXC',off,ln,type(e).__name__,e)

# C05: file data_chunks interleaved with other reads
f = seg(2|4|8,[obj("/'g'/'a'",(3,2))], i32(1,2,3,4,5,6))
with TdmsFile.open(io.BytesIO(f)) as t:
    c = t['g']['a']; out=[]
    for ch in t.data_chunks():
        out.append(list(ch['g']['a'][:])); c[0]
    print('C05 chunks with interleaved index', out)
