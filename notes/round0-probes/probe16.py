import itertools, collections, time
def labels(chs):
    L=[('nometa',)]
    encs=['U','F1','F2','S','N']
    for newlist in (0,1):
        for combo in itertools.product(encs, repeat=len(chs)):
            listed=[(c,e) for c,e in zip(chs,combo) if e!='U']
            for perm in set(itertools.permutations(listed)):
                L.append(('meta',newlist,perm))
    return L
def step(state, lab):
    # state: (active tuple of (ch, n or None, has), last tuple sorted of (ch,n,has)), k>0 flag
    active,last,k = state
    last=dict(last)
    if lab[0]=='nometa':
        if not k: return None
        new=list(active)
    else:
        _,newlist,entries=lab
        new=[] if (newlist or not k) else list(active)
        for ch,e in entries:
            pos=next((i for i,x in enumerate(new) if x[0]==ch),None)
            if pos is not None: cur=new[pos]
            elif ch in last: cur=(ch,)+last[ch]
            else: cur=None
            if e=='N':
                nx=(ch, cur[1] if cur else None, False)
            elif e=='S':
                if cur is None or cur[1] is None: return None
                nx=(ch,cur[1],True)
            else:
                nx=(ch,int(e[1]),True)
            if pos is not None: new[pos]=nx
            else: new.append(nx)
    for x in new: last[x[0]]=(x[1],x[2])
    return (tuple(new), tuple(sorted(last.items())), 1)
for chs in (['a','b'],['a','b','c']):
    L=labels(chs); t0=time.time()
    init=((),(),0); seen={init}; fr=collections.deque([(init,0)]); trans=0; forb=0; maxd=0
    while fr:
        s,d=fr.popleft(); maxd=max(maxd,d)
        for lab in L:
            n=step(s,lab); trans+=1
            if n is None: forb+=1; continue
            if n not in seen: seen.add(n); fr.append((n,d+1))
    print(len(chs),'channels: labels',len(L),'states',len(seen),'transitions',trans,'forbidden',forb,'maxdepth',maxd,'t',round(time.time()-t0,1))
