import io, struct, numpy as np, warnings, logging
from probe1 import seg, obj, i32, s
from nptdms import TdmsFile
from nptdms.log import log_manager
log_manager.set_level(logging.ERROR)
def show(name, f):
    for mode in ('read','open'):
        try:
            if mode=='read':
                t = TdmsFile.read(io.BytesIO(f)); res = {c.path:(c.data_type.__name__ if c.data_type else None, list(c[:])) for g in t.groups() for c in g.channels()}
            else:
                with TdmsFile.open(io.BytesIO(f)) as t:
                    res = {c.path:(c.data_type.__name__ if c.data_type else None, list(c[:])) for g in t.groups() for c in g.channels()}
            print(name, mode, res)
        except Exception as e: print(name, mode, 'EXC', type(e).__name__, e)
A="/'g'/'a'"; B="/'g'/'b'"
# SAME on never seen object, first segment
show('same-unseen', seg(14,[obj(A,'same')], i32(1,2)))
# NODATA then SAME (index never defined), with data bytes
show('nodata-then-same', seg(14,[obj(A,None)], b'') + seg(14,[obj(A,'same')], i32(1,2)))
show('nodata-then-same-nodata', seg(14,[obj(A,None)], b'') + seg(14,[obj(A,'same')], b''))
# first segment without metadata
show('first-no-meta', seg(8,[], i32(1,2)))
# type change
show('type-change', seg(14,[obj(A,(3,2))], i32(1,2)) + seg(14,[obj(A,(5,2))], b'\x01\x02'))
# full, then new obj list without a, then SAME for a with new list (index from 2 segments ago)
show('same-after-gap', seg(14,[obj(A,(3,2)),obj(B,(3,1))], i32(1,2,9)) + seg(14,[obj(B,'same')], i32(8)) + seg(14,[obj(A,'same')], i32(3,4)))
# nodata flip then same (index survives no-data)
show('nodata-flip', seg(14,[obj(A,(3,2))], i32(1,2)) + seg(10,[obj(A,None)], b'') + seg(10,[obj(A,'same')], i32(3,4)))
# no-metadata segment after
show('nometa', seg(14,[obj(A,(3,2))], i32(1,2)) + seg(8,[], i32(3,4,5,6)))
# order swap with lazy (cache key)
show('order-swap', seg(14,[obj(A,(3,1)),obj(B,(3,2))], i32(1,20,21)) + seg(14,[obj(B,(3,2)),obj(A,(3,1))], i32(22,23,2)))
# append new without new obj list, update existing in place in different order
show('append', seg(14,[obj(A,(3,1))], i32(1)) + seg(10,[obj(B,(3,1))], i32(2,7)) + seg(10,[obj(B,(3,2)),obj(A,None)], i32(8,9)))
