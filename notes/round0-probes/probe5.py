import io, numpy as np, itertools, warnings
warnings.simplefilter('ignore')
from nptdms import TdmsFile, TdmsWriter, ChannelObject
def mk(dtype, props, vals=(1,2,3)):
    b = io.BytesIO()
    with TdmsWriter(b) as w:
        w.write_segment([ChannelObject('g','c',np.array(vals,dtype=dtype),props)])
    return b.getvalue()
scales = {
 'Linear': {'NI_Scale[0]_Scale_Type':'Linear','NI_Scale[0]_Linear_Slope':2.0,'NI_Scale[0]_Linear_Y_Intercept':1.0},
 'Polynomial': {'NI_Scale[0]_Scale_Type':'Polynomial','NI_Scale[0]_Polynomial_Coefficients_Size':2,'NI_Scale[0]_Polynomial_Coefficients[0]':1.0,'NI_Scale[0]_Polynomial_Coefficients[1]':2.0},
 'Table': {'NI_Scale[0]_Scale_Type':'Table','NI_Scale[0]_Table_Pre_Scaled_Values_Size':2,'NI_Scale[0]_Table_Scaled_Values_Size':2,'NI_Scale[0]_Table_Pre_Scaled_Values[0]':0.0,'NI_Scale[0]_Table_Pre_Scaled_Values[1]':10.0,'NI_Scale[0]_Table_Scaled_Values[0]':0.0,'NI_Scale[0]_Table_Scaled_Values[1]':5.0},
 'Thermocouple0': {'NI_Scale[0]_Scale_Type':'Thermocouple','NI_Scale[0]_Thermocouple_Thermocouple_Type':10073,'NI_Scale[0]_Thermocouple_Scaling_Direction':0},
 'Thermocouple1': {'NI_Scale[0]_Scale_Type':'Thermocouple','NI_Scale[0]_Thermocouple_Thermocouple_Type':10073,'NI_Scale[0]_Thermocouple_Scaling_Direction':1},
 'RTD': {'NI_Scale[0]_Scale_Type':'RTD','NI_Scale[0]_RTD_Current_Excitation':0.001,'NI_Scale[0]_RTD_R0_Nominal_Resistance':100.0,'NI_Scale[0]_RTD_A':0.0039083,'NI_Scale[0]_RTD_B':-5.775e-07,'NI_Scale[0]_RTD_C':-4.183e-12,'NI_Scale[0]_RTD_Lead_Wire_Resistance':0.0,'NI_Scale[0]_RTD_Resistance_Configuration':3,'NI_Scale[0]_RTD_Input_Source':0xFFFFFFFF},
 'Thermistor': {'NI_Scale[0]_Scale_Type':'Thermistor','NI_Scale[0]_Thermistor_Excitation_Type':10134,'NI_Scale[0]_Thermistor_Excitation_Value':1e-3,'NI_Scale[0]_Thermistor_Resistance_Configuration':3,'NI_Scale[0]_Thermistor_R1_Reference_Resistance':1e4,'NI_Scale[0]_Thermistor_Lead_Wire_Resistance':0.0,'NI_Scale[0]_Thermistor_A':1e-3,'NI_Scale[0]_Thermistor_B':2e-4,'NI_Scale[0]_Thermistor_C':1e-7,'NI_Scale[0]_Thermistor_Temperature_Offset':0.0,'NI_Scale[0]_Thermistor_Input_Source':0xFFFFFFFF},
 'Strain': {'NI_Scale[0]_Scale_Type':'Strain','NI_Scale[0]_Strain_Configuration':10183,'NI_Scale[0]_Strain_Poisson_Ratio':0.3,'NI_Scale[0]_Strain_Gage_Resistance':350.0,'NI_Scale[0]_Strain_Lead_Wire_Resistance':0.0,'NI_Scale[0]_Strain_Initial_Bridge_Voltage':0.0,'NI_Scale[0]_Strain_Gage_Factor':2.0,'NI_Scale[0]_Strain_Bridge_Shunt_Calibration_Gain_Adjustment':1.0,'NI_Scale[0]_Strain_Voltage_Excitation':2.5,'NI_Scale[0]_Strain_Input_Source':0xFFFFFFFF},
 'Add': {'NI_Scale[0]_Scale_Type':'Add','NI_Scale[0]_Add_Left_Operand_Input_Source':0xFFFFFFFF,'NI_Scale[0]_Add_Right_Operand_Input_Source':0xFFFFFFFF},
 'AdvancedAPI': {'NI_Scale[0]_Scale_Type':'AdvancedAPI'},
}
for name, p in scales.items():
    p = dict(p); p['NI_Number_Of_Scales']=1
    row=[]
    for dt in ['int8','uint8','int16','int32','uint32','int64','uint64','float32','float64','bool','complex64']:
        try:
            vals=(100,200,300) if name=='RTD' else (1,2,3)
            if dt in('int8','uint8','bool'): vals=(1,2,3)
            c = TdmsFile.read(io.BytesIO(mk(dt,p,vals)))['g']['c']
            a = c[:]
            row.append('%s:%s' % (dt, 'ok' if a.dtype==c.dtype else 'DECL %s ACT %s'%(c.dtype,a.dtype)))
        except Exception as e:
            row.append('%s:EXC %s'%(dt,type(e).__name__))
    print(name, ' | '.join(r for r in row if not r.endswith(':ok')))
