import itertools, io, numpy as np
from nptdms.common import ObjectPath
from nptdms import TdmsWriter, TdmsFile, ChannelObject, GroupObject
alpha = ["'", "/", " ", "a"]
names = [''.join(p) for n in range(0,5) for p in itertools.product(alpha, repeat=n)]
print(len(names))
paths = {}
bad = 0
for g in names:
    p = str(ObjectPath(g)); q = ObjectPath.from_string(p)
    if q.group != g or q.channel is not None: bad += 1; print('grp', repr(g), p, q.group, q.channel)
    if p in paths: bad+=1; print('collision', p)
    paths[p] = (g,)
n3 = [x for x in names if len(x) <= 3]
for g in n3:
    for c in n3:
        p = str(ObjectPath(g, c)); q = ObjectPath.from_string(p)
        if (q.group, q.channel) != (g, c): bad += 1; print('pair', repr(g), repr(c), p, repr(q.group), repr(q.channel))
        if p in paths: bad+=1; print('collision', p, paths[p], (g,c))
        paths[p] = (g,c)
print('bad', bad, 'paths', len(paths))
# end to end: one file with all groups
b = io.BytesIO()
with TdmsWriter(b) as w:
    objs=[]
    for i,g in enumerate(names):
        objs.append(ChannelObject(g, g[::-1], np.array([i],dtype=np.int32)))
    w.write_segment(objs)
t = TdmsFile.read(io.BytesIO(b.getvalue()))
bad2=0
for i,g in enumerate(names):
    try:
        c = t[g][g[::-1]]
        if c[0]!=i or c.name!=g[::-1] or c.group_name!=g: bad2+=1; print('e2e', repr(g))
    except Exception as e: bad2+=1; print('e2e EXC', repr(g), e)
print('e2e bad', bad2, len(t.groups()))
