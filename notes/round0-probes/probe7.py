import io, struct, numpy as np, logging
from probe1 import seg, obj, i32, s
from nptdms import TdmsFile
from nptdms.log import log_manager
log_manager.set_level(logging.ERROR)
A="/'g'/'a'"; B="/'g'/'b'"
def sobj(path,n,total): return s(path)+struct.pack('<LLLQQ',28,0x20,1,n,total)+struct.pack('<L',0)
def strdata(strs):
    enc=[x.encode() for x in strs]; off=0; o=b''
    for e in enc: off+=len(e); o+=struct.pack('<L',off)
    return o+b''.join(enc)
def readall(f, lazy):
    if lazy:
        with TdmsFile.open(io.BytesIO(f)) as t:
            return {c.path:(len(c), list(c[:])) for g in t.groups() for c in g.channels()}, t.file_status.incomplete_final_segment
    t = TdmsFile.read(io.BytesIO(f))
    return {c.path:(len(c), list(c[:])) for g in t.groups() for c in g.channels()}, t.file_status.incomplete_final_segment
def cuts(name, f, marker=False):
    full,_ = readall(f, False)
    probs=0
    for cut in range(4, len(f)+1):
        g = f[:cut]
        for lazy in (False, True):
            try:
                r, inc = readall(g, lazy)
            except Exception as e:
                print(name, 'cut', cut, 'lazy', lazy, 'EXC', type(e).__name__, str(e)[:80]); probs+=1; continue
            for p,(n,v) in r.items():
                if n!=len(v) or v != full[p][1][:len(v)]:
                    print(name,'cut',cut,'lazy',lazy,'BAD',p,n,v); probs+=1
    print(name, 'len', len(f), 'problems', probs)
f1 = seg(14,[obj(A,(3,2)),obj(B,(4,1))], i32(1,2)+struct.pack('<q',9)+i32(3,4)+struct.pack('<q',10)) + seg(8,[],i32(5,6)+struct.pack('<q',11))
cuts('contig', f1)
f2 = seg(14|32,[obj(A,(3,2)),obj(B,(3,2))], i32(1,10,2,20,3,30,4,40))
cuts('interleaved', f2)
d = strdata(['ab','cde'])
f3 = seg(14,[sobj(A,2,len(d)), obj(B,(3,1))], d+i32(7)+d+i32(8))
cuts('string2chunk', f3)
f4 = seg(14,[obj(A,(3,2))], i32(1,2)) + seg(14,[obj(A,(3,2)),obj(B,(3,2))], i32(3,4,5,6))
cuts('twoseg', f4)
