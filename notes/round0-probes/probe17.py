import io, struct, numpy as np, logging
from probe1 import seg, obj, i32, s
from nptdms import TdmsFile
from nptdms.log import log_manager
log_manager.set_level(logging.CRITICAL)
A="/'g'/'a'"; B="/'g'/'b'"
def layout(segs):
    pos=0; out=[]
    for sg in segs:
        nso, rdo = struct.unpack('<QQ', sg[12:28])
        out.append((pos, pos+28+rdo, pos+28+nso)); pos += 28+nso
    return out
def rawlist(c):
    r=c.read_data(scaled=False)
    if isinstance(r,dict):
        ks=sorted(r); return list(zip(*[[x for x in r[k]] for k in ks])) if ks else []
    return [x for x in r]
def readall(f, lazy):
    if lazy:
        with TdmsFile.open(io.BytesIO(f)) as t:
            return {c.path:(len(c), rawlist(c)) for g in t.groups() for c in g.channels()}, t.file_status.incomplete_final_segment
    t = TdmsFile.read(io.BytesIO(f))
    return {c.path:(len(c), rawlist(c)) for g in t.groups() for c in g.channels()}, t.file_status.incomplete_final_segment
def per_segment_counts(segs):
    # values per channel per cumulative segment prefix, via reading prefixes of whole segments
    out=[]
    for k in range(len(segs)+1):
        if k==0: out.append({}); continue
        r,_=readall(b''.join(segs[:k]), False); out.append({p:n for p,(n,v) in r.items()})
    return out
def cuts(name, segs, marker=False):
    f=b''.join(segs); L=layout(segs)
    if marker:
        lp=L[-1][0]; f=f[:lp+12]+b'\xff'*8+f[lp+20:]
    full,_=readall(b''.join(segs),False); cum=per_segment_counts(segs)
    probs=0; n=0
    for cut in range(4,len(f)+1):
        g=f[:cut]; whole=sum(1 for (p,dp,e) in L if e<=cut)
        inside=any(dp<cut<e for (p,dp,e) in L); boundary=any(dp==cut<e for (p,dp,e) in L)
        res={}
        for lazy in (False,True):
            n+=1
            try: r,inc=readall(g,lazy)
            except Exception as e:
                probs+=1; print(name,'cut',cut,'lazy',lazy,'EXC',type(e).__name__,str(e)[:70]); continue
            res[lazy]=r
            for p,(ln,v) in r.items():
                fv=full[p][1]
                if ln!=len(v) or [repr(x) for x in v]!=[repr(x) for x in fv[:len(v)]]: probs+=1; print(name,'cut',cut,lazy,'NOTPREFIX',p,ln,v)
                if len(v)<cum[whole].get(p,0): probs+=1; print(name,'cut',cut,lazy,'LOST',p,len(v),cum[whole].get(p,0))
            for p,cnt in cum[whole].items():
                if cnt>0 and p not in r: probs+=1; print(name,'cut',cut,lazy,'MISSING',p)
            if not boundary and not (marker and cut==len(f)):
                if inc!=inside: probs+=1; print(name,'cut',cut,lazy,'STATUS',inc,'expected',inside)
        if len(res)==2 and res[0]!=res[1]: probs+=1; print(name,'cut',cut,'EAGER!=LAZY')
    print(name,'marker',marker,'len',len(f),'execs',n,'problems',probs)
segsA=[seg(14,[obj(A,(3,2)),obj(B,(4,1))], b''.join(i32(10*k+1,10*k+2)+struct.pack('<q',k) for k in range(2))), seg(8,[],i32(5,6)+struct.pack('<q',11)+i32(7,8)+struct.pack('<q',12))]

segsB=[seg(14,[obj(A,(3,2))],i32(1,2)), seg(14|32,[obj(A,(3,2)),obj(B,(2,2))], b''.join(i32(k)+struct.pack('<h',k) for k in range(3,7)))]

# DAQmx two buffers different lengths
def daq(path, n, widths, scalers, dtype=0xFFFFFFFF):
    o=s(path)+struct.pack('<LLLQL',0x1269,dtype,1,n,len(scalers))
    for (t,buf,off,sid) in scalers: o+=struct.pack('<LLLLL',t,buf,off,0,sid)
    o+=struct.pack('<L',len(widths))+b''.join(struct.pack('<L',w) for w in widths)+struct.pack('<L',0)
    return o
chunk = bytes(range(1,1+2*4)) + bytes(range(50,50+1*6))   # buf0: 2 rows x4, buf1: 1 row x 6
segsC=[seg(14|128,[daq(A,2,[4,6],[(3,0,0,0),(3,0,2,1)]), daq(B,1,[4,6],[(5,1,1,0)])], chunk*3)]
cuts('daqmx',segsC); cuts('daqmx',segsC,True)
