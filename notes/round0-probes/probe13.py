import io, struct, numpy as np, logging
from probe1 import seg, obj, i32, s
from nptdms import TdmsFile
from nptdms.log import log_manager
log_manager.set_level(logging.ERROR)
class Rec(io.BytesIO):
    def __init__(self, b): super().__init__(b); self.log=[]
    def read(self, n=-1):
        p=self.tell(); r=super().read(n); self.log.append((p,len(r))); return r
    def readinto(self, buf):
        p=self.tell(); n=super().readinto(buf); self.log.append((p,n)); return n
A="/'g'/'a'"; B="/'g'/'b'"
# 3 segments: a n=2 x 3 chunks with b n=1 (8 byte); seg2 only b; seg3 a n=3 x2 chunks
s1 = seg(14,[obj(A,(3,2)),obj(B,(4,1))], b''.join(i32(10*k+1,10*k+2)+struct.pack('<q',k) for k in range(3)))
s2 = seg(14,[obj(B,(4,1))], struct.pack('<q',7))
s3 = seg(14,[obj(A,(3,3))], i32(*range(100,106)))
f = s1+s2+s3
# layout (manual): compute data positions
def layout(segs):
    pos=0; out=[]
    for sg in segs:
        nso, rdo = struct.unpack('<QQ', sg[12:28])
        out.append((pos, pos+28+rdo, pos+28+nso)); pos += 28+nso
    return out
L = layout([s1,s2,s3]); print(L)
# channel a extents: seg1 chunks of 16 bytes: a at [dp+16k, +8); seg3 chunks of 12 bytes
ext=[]  # (global value start, n, byte start, byte end, segidx)
v=0
for k in range(3): ext.append((v,2,L[0][1]+16*k, L[0][1]+16*k+8,0)); v+=2
for k in range(2): ext.append((v,3,L[2][1]+12*k, L[2][1]+12*k+12,2)); v+=3
full = TdmsFile.read(io.BytesIO(f))['g']['a'][:]; n=len(full); print(full)
bad=0
st = Rec(f)
with TdmsFile.open(st) as t:
    c=t['g']['a']
    for off in range(n):
        for ln in range(1,n-off+1):
            st.log.clear()
            try: r=c.read_data(off,ln)
            except Exception as e: print('EXC',off,ln,e); bad+=1; continue
            ov=[e for e in ext if e[0]<off+ln and e[0]+e[1]>off]
            segs=range(min(e[4] for e in ov), max(e[4] for e in ov)+1)
            allowed=set()
            for e in ov: allowed.update(range(e[2],e[3]))
            for si in segs: allowed.update(range(L[si][0], L[si][0]+28))
            got=set()
            for p,k in st.log: got.update(range(p,p+k))
            if not got<=allowed: bad+=1; print('over-read',off,ln,sorted(got-allowed)[:6], len(got-allowed))
    # index caching
    st.log.clear(); c[0]; a=len(st.log); st.log.clear(); c[1]; print('first idx reads',a,'second', st.log)
print('bad',bad)
