#!/bin/bash
# Offline setup: nothing to build (pure Python). Validates the reference model against the
# implementation-independent sources of truth (see DESIGN.md section 5).
cd "$(dirname "$0")" || exit 2
export PYTHONHASHSEED=0 PYTHONDONTWRITEBYTECODE=1 VERIF_REPO="${VERIF_REPO:-/repo}"
mkdir -p evidence replays
exec /venv/bin/python -m mc.selftest
